//! E2E harness: the APPLICATION GLUE.  Every case goes through a REAL `CompassApp` built offline from a generated
//! configuration (TOML text) and generated network files, and `CompassApp::run` on one JSON query:
//!   search_app.rs (run_vertex_oriented / run_edge_oriented dispatch, build_search_instance from config + query, query
//!   field parsing), input plugins (vertex / edge map matching), output plugins (traversal: route.path,
//!   route.traversal_summary, route.cost, tree; summary: route_edges, tree_size_count), error packaging.
//! The EXISTING verified checkers / specifications are evaluated in Coq on the facts extracted from the JSON response
//! (coq/Model/E2ERun.v, which only imports and calls them):
//!   app_walk   (C01)  SearchSpec.check_route / check_eroute / check_tree / check_etree through SR.check_outcome
//!   app_sums   (C03)  the exact-rational judge TR.judge (Model/TraversalRun.v) + the binary64 model TR.run (M line)
//!   app_reach  (C05)  Reach.reachb / pwalkb / reach_set / Bellman-Ford through RR.judge (Model/ReachRun.v)
//!   app_frontier (C04) FrontierRun.check_outcome: the raw-table judge of Model/FrontierSpec.v on route and tree, the
//!                    [frontier] section (road_class / vehicle_restriction / turn_restriction / combined) read by the
//!                    application from files this harness writes; M = class of the response by Frontier.build
//!   app_limits (C10) TerminationRun.TR.check_case on a sweep of applications that differ only in [termination]; the
//!                    limits are read off the configuration JSON in Coq (TR.configured), `error` texts are judged
//!   app_ksp    (C13) KspRun.KR.check_case on EVERY route of the response (`route` = null / object / array of objects)
//!                    of an application whose [algorithm] section is ksp_single_via / yens (k = 1)
//! Lines: I = canonical facts of the response; S = the verdict computed in Coq (prints the expected text when the
//! checkers accept, REJECT(..) otherwise); M for app_sums (the traversal model re-walks the returned path bit for bit)
//! and app_frontier.
//! Command line: e2e <app_walk|app_sums|app_reach|app_frontier|app_limits|app_ksp|probe> --seed S --n N --out DIR --shards K [--replay FILE]
//! (FILE = {"case": <description>} or {"cases": [...]}: the configuration and query are rebuilt from the description).
//! `probe` prints raw responses.  Private helpers only (appkit / searchkit are read-only): the configuration writer
//! (appkit's has no [state] section, turn delays, road-class frontier, unit choices) lives here.
use routee_compass::app::compass::compass_app::CompassApp;
use routee_compass::app::compass::config::compass_app_builder::CompassAppBuilder;
use routee_compass_core::algorithm::search::direction::Direction;
use routee_compass_core::algorithm::search::edge_traversal::EdgeTraversal;
use routee_compass_core::algorithm::search::search_instance::SearchInstance;
use routee_compass_core::model::network::{EdgeId, VertexId};
use routee_compass_core::model::unit::as_f64::AsF64;
use serde_json::{json, Map, Value};
use std::panic::AssertUnwindSafe;
use std::path::{Path, PathBuf};
use std::sync::Arc;
use verif_harness::appkit::{run_watchdog, write_network, Net, NetFiles, RunOutcome};
use verif_harness::searchkit as sk;
use verif_harness::*;

const DIST: [&str; 5] = ["Meters", "Kilometers", "Miles", "Inches", "Feet"];
const TIME: [&str; 4] = ["Hours", "Minutes", "Seconds", "Milliseconds"];
const SPEED: [&str; 3] = ["KilometersPerHour", "MilesPerHour", "MetersPerSecond"];
const TURNS: [&str; 8] = ["NoTurn", "SlightRight", "SlightLeft", "Right", "Left", "SharpRight", "SharpLeft", "UTurn"];
const WATCHDOG_MS: u64 = 20000;

fn snake(id: &str) -> String {
    if id == "UTurn" {
        return "u_turn".into();
    }
    let mut s = String::new();
    for (i, c) in id.chars().enumerate() {
        if c.is_ascii_uppercase() {
            if i > 0 {
                s.push('_');
            }
            s.push(c.to_ascii_lowercase());
        } else {
            s.push(c);
        }
    }
    s
}

// ------------------------------------------------------------------------------------------ case description

#[derive(Clone, Debug)]
enum Feat {
    Distance(String, f64),
    Time(String, f64),
    /// type+unit tag, initial
    Custom(String, f64),
}
#[derive(Clone, Debug)]
enum Tm {
    Dist(String),
    Speed { su: String, du: Option<String>, tu: Option<String> },
}
#[derive(Clone, Debug)]
struct TurnCfg {
    headings: Vec<(i64, Option<i64>)>,
    table: Vec<(String, f64)>,
    unit: String,
}
#[derive(Clone, Debug, PartialEq)]
enum Inp {
    None,
    Vertex,
    Edge,
}
#[derive(Clone, Debug)]
enum VRate {
    Raw,
    Factor(f64),
    Offset(f64),
    /// applied one after the other, in order; in a configuration file or a query: ["combined", rate, rate, ..]
    Combined(Vec<VRate>),
}
fn vr_json(r: &VRate) -> Value {
    match r {
        VRate::Raw => Value::Null,
        VRate::Factor(f) => json!(f),
        VRate::Offset(o) => json!({"offset": o}),
        VRate::Combined(l) => json!({"combined": l.iter().map(vr_json).collect::<Vec<_>>()}),
    }
}
fn vr_from(v: &Value) -> VRate {
    if let Some(f) = v.as_f64() {
        VRate::Factor(f)
    } else if let Some(o) = v.get("offset").and_then(|x| x.as_f64()) {
        VRate::Offset(o)
    } else if let Some(l) = v.get("combined").and_then(|x| x.as_array()) {
        VRate::Combined(l.iter().map(vr_from).collect())
    } else {
        VRate::Raw
    }
}
/// the rate as the repository's serde definition reads it (configuration file and query alike)
fn vr_config(r: &VRate) -> Value {
    match r {
        VRate::Raw => json!({"type": "raw"}),
        VRate::Factor(x) => json!({"type": "factor", "factor": x}),
        VRate::Offset(x) => json!({"type": "offset", "offset": x}),
        VRate::Combined(l) => Value::Array(std::iter::once(json!("combined")).chain(l.iter().map(vr_config)).collect()),
    }
}
fn vr_coq(r: &VRate) -> String {
    match r {
        VRate::Raw => "Cost.VRaw".to_string(),
        VRate::Factor(f) => format!("(Cost.VFactor {})", cnum(*f)),
        VRate::Offset(o) => format!("(Cost.VOffset {})", cnum(*o)),
        VRate::Combined(l) => format!("(Cost.VCombined {})", coq_list(l, vr_coq)),
    }
}
fn vrs_json(l: &[(String, VRate)]) -> Value {
    Value::Array(l.iter().map(|(n, r)| json!([n, vr_json(r)])).collect())
}
fn vrs_from(v: &Value) -> Vec<(String, VRate)> {
    v.as_array().map(|a| a.iter().map(|x| (x[0].as_str().unwrap().to_string(), vr_from(&x[1]))).collect()).unwrap_or_default()
}
#[derive(Clone, Debug)]
struct Cfg {
    net: Net,
    astar: bool,
    cfg_wf: Option<f64>,
    tm: Tm,
    /// the [state] section (at most one entry: the order of several would depend on the config crate's map)
    state: Vec<(String, Feat)>,
    turn: Option<TurnCfg>,
    road_class: bool,
    edge_oriented: bool,
    input: Inp,
    route_fmt: String,
    tree_fmt: Option<String>,
    summary: bool,
    weights: Vec<(String, f64)>,
    vrates: Vec<(String, VRate)>,
    /// streams app_frontier / app_limits / app_ksp: the [frontier] section from raw tables (replaces `road_class`),
    /// the [termination] section as JSON, the k-shortest-paths [algorithm] section
    frontier: Option<FCfg>,
    term: Option<Value>,
    ksp: Option<KspCfg>,
}
#[derive(Clone, Debug)]
struct Qry {
    /// vertex ids or edge ids, by the configuration's orientation
    o: usize,
    d: Option<usize>,
    classes: Option<Vec<u8>>,
    weights: Option<Vec<(String, f64)>>,
    user: Vec<(String, Feat)>,
    wf: Option<f64>,
    /// further top-level fields of the query, verbatim (road_classes with names, vehicle_parameters, k)
    extra: Map<String, Value>,
    /// "vehicle_rates" / "cost_aggregation" ("sum" | "mul") of the query: replace the configured ones for this query
    vrates: Option<Vec<(String, VRate)>>,
    agg: Option<String>,
    /// the queries the SAME application instance answered before this one, in order (one after another)
    prefix: Vec<Qry>,
}

fn feat_json(f: &Feat) -> Value {
    match f {
        Feat::Distance(u, i) => json!({"k": "distance", "u": u, "i": i}),
        Feat::Time(u, i) => json!({"k": "time", "u": u, "i": i}),
        Feat::Custom(u, i) => json!({"k": "custom", "u": u, "i": i}),
    }
}
fn feat_from(v: &Value) -> Feat {
    let u = v["u"].as_str().unwrap().to_string();
    let i = v["i"].as_f64().unwrap();
    match v["k"].as_str().unwrap() {
        "distance" => Feat::Distance(u, i),
        "time" => Feat::Time(u, i),
        _ => Feat::Custom(u, i),
    }
}
fn feats_json(l: &[(String, Feat)]) -> Value {
    Value::Array(l.iter().map(|(n, f)| json!([n, feat_json(f)])).collect())
}
fn feats_from(v: &Value) -> Vec<(String, Feat)> {
    v.as_array().map(|a| a.iter().map(|x| (x[0].as_str().unwrap().to_string(), feat_from(&x[1]))).collect()).unwrap_or_default()
}
fn wts_json(l: &[(String, f64)]) -> Value {
    Value::Array(l.iter().map(|(n, w)| json!([n, w])).collect())
}
fn wts_from(v: &Value) -> Vec<(String, f64)> {
    v.as_array().map(|a| a.iter().map(|x| (x[0].as_str().unwrap().to_string(), x[1].as_f64().unwrap())).collect()).unwrap_or_default()
}
fn cfg_json(c: &Cfg) -> Value {
    json!({
        "net": c.net.to_json(), "astar": c.astar, "cfg_wf": c.cfg_wf,
        "tm": match &c.tm { Tm::Dist(u) => json!({"dist": u}), Tm::Speed { su, du, tu } => json!({"su": su, "du": du, "tu": tu}) },
        "state": feats_json(&c.state),
        "turn": match &c.turn { None => Value::Null, Some(t) => json!({"headings": t.headings, "table": wts_json(&t.table), "unit": t.unit}) },
        "road_class": c.road_class, "edge_oriented": c.edge_oriented,
        "input": match c.input { Inp::None => "none", Inp::Vertex => "vertex", Inp::Edge => "edge" },
        "route_fmt": c.route_fmt, "tree_fmt": c.tree_fmt, "summary": c.summary,
        "weights": wts_json(&c.weights),
        "vrates": vrs_json(&c.vrates),
        "frontier": c.frontier.as_ref().map(fcfg_to_json), "term": c.term, "ksp": c.ksp.as_ref().map(ksp_to_json),
    })
}
fn cfg_from(v: &Value) -> Cfg {
    let s = |x: &Value| x.as_str().map(|y| y.to_string());
    Cfg {
        net: Net::from_json(&v["net"]),
        astar: v["astar"].as_bool().unwrap(),
        cfg_wf: v["cfg_wf"].as_f64(),
        tm: if let Some(u) = v["tm"].get("dist") { Tm::Dist(s(u).unwrap()) } else { Tm::Speed { su: s(&v["tm"]["su"]).unwrap(), du: s(&v["tm"]["du"]), tu: s(&v["tm"]["tu"]) } },
        state: feats_from(&v["state"]),
        turn: if v["turn"].is_null() {
            None
        } else {
            Some(TurnCfg {
                headings: v["turn"]["headings"].as_array().unwrap().iter().map(|h| (h[0].as_i64().unwrap(), h[1].as_i64())).collect(),
                table: wts_from(&v["turn"]["table"]),
                unit: s(&v["turn"]["unit"]).unwrap(),
            })
        },
        road_class: v["road_class"].as_bool().unwrap(),
        edge_oriented: v["edge_oriented"].as_bool().unwrap(),
        input: match v["input"].as_str().unwrap() {
            "vertex" => Inp::Vertex,
            "edge" => Inp::Edge,
            _ => Inp::None,
        },
        route_fmt: s(&v["route_fmt"]).unwrap(),
        tree_fmt: s(&v["tree_fmt"]),
        summary: v["summary"].as_bool().unwrap(),
        weights: wts_from(&v["weights"]),
        vrates: vrs_from(&v["vrates"]),
        frontier: v.get("frontier").filter(|x| !x.is_null()).map(fcfg_from_json),
        term: v.get("term").filter(|x| !x.is_null()).cloned(),
        ksp: v.get("ksp").filter(|x| !x.is_null()).map(ksp_from_json),
    }
}
fn qry_json(q: &Qry) -> Value {
    json!({"o": q.o, "d": q.d, "classes": q.classes, "weights": q.weights.as_ref().map(|w| wts_json(w)), "user": feats_json(&q.user), "wf": q.wf,
           "extra": enc(&Value::Object(q.extra.clone())), "vrates": q.vrates.as_ref().map(|l| vrs_json(l)), "agg": q.agg,
           "prefix": q.prefix.iter().map(qry_json).collect::<Vec<_>>()})
}
fn qry_from(v: &Value) -> Qry {
    Qry {
        o: v["o"].as_u64().unwrap() as usize,
        d: v["d"].as_u64().map(|x| x as usize),
        classes: v["classes"].as_array().map(|a| a.iter().map(|x| x.as_u64().unwrap() as u8).collect()),
        weights: if v["weights"].is_null() { None } else { Some(wts_from(&v["weights"])) },
        user: feats_from(&v["user"]),
        wf: v["wf"].as_f64(),
        extra: v.get("extra").map(dec).and_then(|x| x.as_object().cloned()).unwrap_or_default(),
        vrates: v.get("vrates").filter(|x| !x.is_null()).map(vrs_from),
        agg: v.get("agg").and_then(|x| x.as_str()).map(|x| x.to_string()),
        prefix: v.get("prefix").and_then(|x| x.as_array()).map(|a| a.iter().map(qry_from).collect()).unwrap_or_default(),
    }
}

// ------------------------------------------------------------------------------------------ configuration text

/// a state feature as the JSON the repository's own serde definition accepts
fn feature_value(f: &Feat) -> Value {
    match f {
        Feat::Distance(u, i) => json!({"distance_unit": snake(u), "initial": i}),
        Feat::Time(u, i) => json!({"time_unit": snake(u), "initial": i}),
        Feat::Custom(t, i) => json!({"type": t, "unit": t, "format": {"floating_point": {"initial": i}}}),
    }
}
fn features_value(l: &[(String, Feat)]) -> Value {
    let mut m = Map::new();
    for (n, f) in l {
        m.insert(n.clone(), feature_value(f));
    }
    Value::Object(m)
}

fn toml_scalar(v: &Value) -> String {
    match v {
        Value::String(s) => format!("\"{}\"", s.replace('\\', "\\\\").replace('"', "\\\"")),
        Value::Number(n) => {
            if n.is_f64() {
                format!("{:?}", n.as_f64().unwrap())
            } else {
                n.to_string()
            }
        }
        Value::Bool(b) => b.to_string(),
        Value::Array(a) => format!("[{}]", a.iter().map(toml_scalar).collect::<Vec<_>>().join(", ")),
        Value::Object(m) => format!("{{ {} }}", m.iter().map(|(k, x)| format!("{} = {}", k, toml_scalar(x))).collect::<Vec<_>>().join(", ")),
        Value::Null => "\"\"".into(),
    }
}
/// a JSON object as TOML text: scalars / arrays / `inline` keys first, then one [table] per object-valued key
fn toml_table(path: &str, m: &Map<String, Value>, inline: &[&str], out: &mut String) {
    for (k, v) in m {
        if !v.is_object() || inline.contains(&k.as_str()) {
            out.push_str(&format!("{} = {}\n", k, toml_scalar(v)));
        }
    }
    for (k, v) in m {
        if let (Value::Object(sub), false) = (v, inline.contains(&k.as_str())) {
            let p = if path.is_empty() { k.clone() } else { format!("{}.{}", path, k) };
            out.push_str(&format!("[{}]\n", p));
            toml_table(&p, sub, inline, out);
        }
    }
}

struct Files {
    net: NetFiles,
    headings: String,
}
fn write_files(c: &Cfg, dir: &Path) -> Files {
    let net = write_network(dir, &c.net);
    let p = dir.join("headings.csv");
    if let Some(t) = &c.turn {
        let mut s = String::from("arrival_heading,departure_heading\n");
        for (a, d) in &t.headings {
            s += &format!("{},{}\n", a, d.map(|x| x.to_string()).unwrap_or_default());
        }
        std::fs::write(&p, s).unwrap();
    }
    Files { net, headings: p.to_str().unwrap().to_string() }
}

fn config_value(c: &Cfg, f: &Files) -> Value {
    let mut alg = json!({"type": if c.astar { "a*" } else { "dijkstra" }});
    if let (true, Some(w)) = (c.astar, c.cfg_wf) {
        alg["weight_factor"] = json!(w);
    }
    if let Some(k) = &c.ksp {
        alg = ksp_algorithm_json(k, alg, true);
    }
    let traversal = match &c.tm {
        Tm::Dist(u) => json!({"type": "distance", "distance_unit": snake(u)}),
        Tm::Speed { su, du, tu } => {
            let mut t = json!({"type": "speed_table", "speed_table_input_file": f.net.speeds, "speed_unit": snake(su)});
            if let Some(u) = du {
                t["distance_unit"] = json!(snake(u));
            }
            if let Some(u) = tu {
                t["time_unit"] = json!(snake(u));
            }
            t
        }
    };
    let access = match &c.turn {
        None => json!({"type": "no_access_model"}),
        Some(t) => {
            let mut table = Map::new();
            for (k, v) in &t.table {
                table.insert(snake(k), json!(v));
            }
            json!({"type": "turn_delay", "edge_heading_input_file": f.headings, "time_feature_name": "time",
                   "turn_delay_model": {"type": "tabular_discrete", "time_unit": snake(&t.unit), "table": table}})
        }
    };
    let mut weights = Map::new();
    for (n, w) in &c.weights {
        weights.insert(n.clone(), json!(w));
    }
    let mut vrates = Map::new();
    for (n, r) in &c.vrates {
        vrates.insert(n.clone(), vr_config(r));
    }
    let frontier = if let Some(fc) = &c.frontier {
        let mut files = FFiles { dir: f.net.dir.clone(), n: 0 };
        fcfg_config_json(fc, &mut files)
    } else if c.road_class {
        json!({"type": "road_class", "road_class_input_file": f.net.road_classes})
    } else {
        json!({"type": "no_restriction"})
    };
    let inputs: Vec<Value> = match c.input {
        Inp::None => vec![],
        Inp::Vertex => vec![json!({"type": "vertex_rtree", "vertices_input_file": f.net.vertices})],
        Inp::Edge => vec![json!({"type": "edge_rtree", "geometry_input_file": f.net.geometries})],
    };
    let mut outputs: Vec<Value> = vec![];
    if c.summary {
        outputs.push(json!({"type": "summary"}));
    }
    let mut tr = json!({"type": "traversal", "geometry_input_file": f.net.geometries, "route": c.route_fmt});
    if let Some(t) = &c.tree_fmt {
        tr["tree"] = json!(t);
    }
    outputs.push(tr);
    let mut top = Map::new();
    top.insert("parallelism".into(), json!(1));
    top.insert("search_orientation".into(), json!(if c.edge_oriented { "edge" } else { "vertex" }));
    top.insert("response_persistence_policy".into(), json!("persist_response_in_memory"));
    top.insert("response_output_policy".into(), json!({"type": "none"}));
    top.insert("graph".into(), json!({"edge_list_input_file": f.net.edges, "vertex_list_input_file": f.net.vertices, "verbose": false}));
    top.insert("algorithm".into(), alg);
    if !c.state.is_empty() {
        top.insert("state".into(), features_value(&c.state));
    }
    top.insert("traversal".into(), traversal);
    top.insert("access".into(), access);
    top.insert("cost".into(), json!({"cost_aggregation": "sum", "weights": weights, "vehicle_rates": vrates}));
    top.insert("frontier".into(), frontier);
    if let Some(t) = &c.term {
        top.insert("termination".into(), t.clone());
    }
    top.insert("plugin".into(), json!({"input_plugins": inputs, "output_plugins": outputs}));
    Value::Object(top)
}
fn config_toml(c: &Cfg, f: &Files) -> String {
    let v = config_value(c, f);
    let mut out = String::new();
    // every feature of [state] and every vehicle rate is written as an inline table
    let mut inline: Vec<String> = c.state.iter().map(|(n, _)| n.clone()).collect();
    inline.push("response_output_policy".into());
    let inl: Vec<&str> = inline.iter().map(|s| s.as_str()).collect();
    toml_table("", v.as_object().unwrap(), &inl, &mut out);
    out
}

fn build(c: &Cfg, dir: &Path) -> Result<Arc<CompassApp>, String> {
    std::fs::create_dir_all(dir).map_err(|e| e.to_string())?;
    let files = write_files(c, dir);
    let toml = config_toml(c, &files);
    let conf = dir.join("compass.toml");
    std::fs::write(&conf, &toml).map_err(|e| e.to_string())?;
    let conf_s = conf.to_str().unwrap().to_string();
    match catch(move || CompassApp::try_from_config_toml_string(toml, conf_s, &CompassAppBuilder::default())) {
        Ok(Ok(app)) => Ok(Arc::new(app)),
        Ok(Err(e)) => Err(format!("build error: {}", e)),
        Err(p) => Err(format!("build panic: {}", p)),
    }
}

// ------------------------------------------------------------------------------------------ query text

fn seg_point(c: &Cfg, e: usize) -> (f64, f64) {
    let (s, d, _, _, _) = c.net.edges[e];
    let (a, b) = (c.net.coords[s], c.net.coords[d]);
    // the edge matcher ranks edges by the distance to the midpoint of their geometry
    (a.0 + 0.5 * (b.0 - a.0), a.1 + 0.5 * (b.1 - a.1))
}
fn query_value(c: &Cfg, q: &Qry) -> Value {
    let mut m = Map::new();
    match c.input {
        Inp::None => {
            let (ko, kd) = if c.edge_oriented { ("origin_edge", "destination_edge") } else { ("origin_vertex", "destination_vertex") };
            m.insert(ko.into(), json!(q.o));
            if let Some(d) = q.d {
                m.insert(kd.into(), json!(d));
            }
        }
        Inp::Vertex | Inp::Edge => {
            let pt = |i: usize| -> Option<(f64, f64)> {
                if c.input == Inp::Vertex {
                    c.net.coords.get(i).map(|p| (p.0 + 0.0005, p.1 - 0.00025))
                } else if i < c.net.edges.len() {
                    Some(seg_point(c, i))
                } else {
                    None
                }
            };
            if let Some(p) = pt(q.o) {
                m.insert("origin_x".into(), json!(p.0));
                m.insert("origin_y".into(), json!(p.1));
            }
            if let Some(p) = q.d.and_then(pt) {
                m.insert("destination_x".into(), json!(p.0));
                m.insert("destination_y".into(), json!(p.1));
            }
        }
    }
    if let Some(cl) = &q.classes {
        m.insert("road_classes".into(), json!(cl));
    }
    if let Some(w) = &q.weights {
        let mut wm = Map::new();
        for (n, x) in w {
            wm.insert(n.clone(), json!(x));
        }
        m.insert("weights".into(), Value::Object(wm));
    }
    if let Some(l) = &q.vrates {
        let mut vm = Map::new();
        for (n, r) in l {
            vm.insert(n.clone(), vr_config(r));
        }
        m.insert("vehicle_rates".into(), Value::Object(vm));
    }
    if let Some(a) = &q.agg {
        m.insert("cost_aggregation".into(), json!(a));
    }
    if !q.user.is_empty() {
        m.insert("state_features".into(), features_value(&q.user));
    }
    if let Some(w) = q.wf {
        m.insert("weight_factor".into(), json!(w));
    }
    for (k, v) in &q.extra {
        m.insert(k.clone(), v.clone());
    }
    Value::Object(m)
}

// ------------------------------------------------------------------------------------------ the response

#[derive(Clone, Debug, Default)]
struct Resp {
    /// Ok | nopath | terminated | err | Panic | Hang | RunErr | bad
    status: String,
    err: String,
    /// the two ids named by a no-path error
    ends: Option<(usize, usize)>,
    has_route: bool,
    path: Vec<usize>,
    recs: Vec<EdgeTraversal>,
    has_tree: bool,
    /// (terminal_vertex when the format shows it, edge id, result_state when shown)
    tree: Vec<(Option<usize>, usize, Vec<f64>)>,
    summary: Vec<(String, f64)>,
    cost: Vec<(String, f64)>,
    route_edges: Option<u64>,
    tree_size: Option<u64>,
    req: Value,
    malformed: Vec<String>,
    raw: Value,
}
fn kv_f64(v: &Value) -> Vec<(String, f64)> {
    let mut kv: Vec<(String, f64)> = v.as_object().map(|m| m.iter().map(|(k, x)| (k.clone(), x.as_f64().unwrap_or(f64::NAN))).collect()).unwrap_or_default();
    kv.sort_by(|a, b| a.0.as_bytes().cmp(b.0.as_bytes()));
    kv
}
fn two_numbers(s: &str) -> Option<(usize, usize)> {
    let nums: Vec<usize> = s.split(|c: char| !c.is_ascii_digit()).filter(|x| !x.is_empty()).filter_map(|x| x.parse().ok()).collect();
    if nums.len() == 2 {
        Some((nums[0], nums[1]))
    } else {
        None
    }
}
fn parse_response(out: &RunOutcome) -> Resp {
    let mut r = Resp::default();
    let v = match out {
        RunOutcome::Hang => {
            r.status = "Hang".into();
            return r;
        }
        RunOutcome::Panic(p) => {
            r.status = "Panic".into();
            r.err = p.clone();
            return r;
        }
        RunOutcome::Err(e) => {
            r.status = "RunErr".into();
            r.err = e.clone();
            return r;
        }
        RunOutcome::Ok(vs) => {
            if vs.len() != 1 {
                r.status = "bad".into();
                r.err = format!("{} responses for one query", vs.len());
                return r;
            }
            vs[0].clone()
        }
    };
    r.raw = v.clone();
    r.req = v.get("request").cloned().unwrap_or(Value::Null);
    if !v.is_object() || r.req.is_null() {
        r.status = "bad".into();
        return r;
    }
    if let Some(e) = v.get("error") {
        let text = e.as_str().unwrap_or("").to_string();
        r.status = if text.starts_with("no path exists between") {
            r.ends = two_numbers(&text);
            "nopath".into()
        } else if text.starts_with("query terminated") || text.contains("QueryTerminated") {
            "terminated".into()
        } else {
            "err".into()
        };
        r.err = text;
        if v.get("route").is_some() || v.get("tree").is_some() {
            r.malformed.push("error response with route/tree".into());
        }
        return r;
    }
    r.status = "Ok".into();
    if let Some(route) = v.get("route") {
        if route.is_object() {
            r.has_route = true;
            match route.get("path").and_then(|p| p.as_array()) {
                None => r.malformed.push("route without path".into()),
                Some(p) => {
                    for x in p {
                        if let Some(e) = x.as_u64() {
                            r.path.push(e as usize);
                        } else if x.is_object() {
                            match serde_json::from_value::<EdgeTraversal>(x.clone()) {
                                Ok(et) => {
                                    r.path.push(et.edge_id.0);
                                    r.recs.push(et);
                                }
                                Err(_) => r.malformed.push("path record".into()),
                            }
                        } else {
                            r.malformed.push("path element".into());
                        }
                    }
                }
            }
            r.summary = kv_f64(route.get("traversal_summary").unwrap_or(&Value::Null));
            r.cost = kv_f64(route.get("cost").unwrap_or(&Value::Null));
        } else if !route.is_null() {
            r.malformed.push("route is neither object nor null".into());
        }
    }
    if let Some(tree) = v.get("tree") {
        if let Some(a) = tree.as_array() {
            r.has_tree = true;
            for x in a {
                if let Some(e) = x.as_u64() {
                    r.tree.push((None, e as usize, vec![]));
                } else if x.is_object() {
                    let tv = x["terminal_vertex"].as_u64().map(|y| y as usize);
                    let e = x["edge_traversal"]["edge_id"].as_u64().map(|y| y as usize);
                    let st: Vec<f64> = x["edge_traversal"]["result_state"].as_array().map(|s| s.iter().map(|y| y.as_f64().unwrap_or(f64::NAN)).collect()).unwrap_or_default();
                    match (tv, e) {
                        (Some(tv), Some(e)) => r.tree.push((Some(tv), e, st)),
                        _ => r.malformed.push("tree branch".into()),
                    }
                } else {
                    r.malformed.push("tree element".into());
                }
            }
        } else if !tree.is_null() {
            r.malformed.push("tree is neither array nor null".into());
        }
    }
    r.route_edges = v.get("route_edges").and_then(|x| x.as_u64());
    r.tree_size = v.get("tree_size_count").and_then(|x| x.as_u64());
    r
}

fn run_query(app: &Arc<CompassApp>, query: &Value) -> Resp {
    parse_response(&run_watchdog(app, vec![query.clone()], None, WATCHDOG_MS))
}


// ------------------------------------------------------------------------------------------ networks

/// vertex i sits on cell i of an 8 x 8 grid with 1/8 degree spacing (exact in f32)
fn cell(i: usize) -> (f64, f64) {
    (-105.0 + 0.125 * (i % 8) as f64, 39.0 + 0.125 * (i / 8) as f64)
}
fn hav_m(a: (f64, f64), b: (f64, f64)) -> f64 {
    let (lat1, lat2) = (a.1.to_radians(), b.1.to_radians());
    let (dlat, dlon) = (lat2 - lat1, (b.0 - a.0).to_radians());
    let h = (dlat / 2.0).sin().powi(2) + (dlon / 2.0).sin().powi(2) * lat1.cos() * lat2.cos();
    6_371_000.0 * 2.0 * h.sqrt().asin()
}
const SPEEDS: [f64; 8] = [15.0, 25.0, 37.5, 40.0, 55.0, 62.5, 90.0, 120.0];
/// a network over given coordinates: length = great-circle distance * factor (whole meters, >= 1), so that with
/// factor >= 1.02 the haversine estimate of the traversal models is consistent; self loops get 400 m
fn net_of(coords: Vec<(f64, f64)>, edges: &[(usize, usize)], factor: impl Fn(usize) -> f64, speed: impl Fn(usize) -> f64, class: impl Fn(usize) -> u8) -> Net {
    let es = edges
        .iter()
        .enumerate()
        .map(|(i, (s, d))| {
            let h = if s == d || *s >= coords.len() || *d >= coords.len() { 400.0 } else { hav_m(coords[*s], coords[*d]) };
            (*s, *d, (h * factor(i)).ceil().max(1.0), speed(i), class(i))
        })
        .collect();
    Net { coords, edges: es }
}
fn simple_net(n: usize, edges: &[(usize, usize)]) -> Net {
    net_of((0..n).map(cell).collect(), edges, |i| 1.05 + 0.1 * (i % 4) as f64, |i| SPEEDS[i % SPEEDS.len()], |_| 0)
}
/// random network: searchkit's graph generator (n 3..40, dense vertex, forced parallel edge / self loop / isolated
/// vertex / unreachable part) on distinct random grid cells
fn gen_net(r: &mut Rng, consistent: bool) -> (Net, Vec<&'static str>) {
    let (n, mut edges, flags) = sk::gen_graph(r);
    if edges.is_empty() {
        // the speed table of an edgeless network does not load
        edges.push((0, 1));
    }
    let mut cells: Vec<usize> = (0..64).collect();
    r.shuffle(&mut cells);
    let coords: Vec<(f64, f64)> = cells[..n].iter().map(|c| cell(*c)).collect();
    let fs: Vec<f64> = edges.iter().map(|_| if consistent { 1.02 + r.below(150) as f64 / 100.0 } else { 0.3 + r.below(250) as f64 / 100.0 }).collect();
    let sp: Vec<f64> = edges.iter().map(|_| *r.pick(&SPEEDS)).collect();
    let cl: Vec<u8> = edges.iter().map(|_| r.below(4) as u8).collect();
    (net_of(coords, &edges, |i| fs[i], |i| sp[i], |i| cl[i]), flags)
}

fn base_cfg(net: Net) -> Cfg {
    Cfg {
        net,
        astar: true,
        cfg_wf: None,
        tm: Tm::Speed { su: "KilometersPerHour".into(), du: None, tu: None },
        state: vec![],
        turn: None,
        road_class: false,
        edge_oriented: false,
        input: Inp::None,
        route_fmt: "edge_id".into(),
        tree_fmt: Some("json".into()),
        summary: true,
        weights: vec![("distance".into(), 0.0), ("time".into(), 1.0)],
        vrates: vec![("distance".into(), VRate::Raw), ("time".into(), VRate::Raw)],
        frontier: None,
        term: None,
        ksp: None,
    }
}
fn dist_cfg(net: Net, unit: &str, initial: f64) -> Cfg {
    let mut c = base_cfg(net);
    c.tm = Tm::Dist(unit.into());
    c.state = vec![("distance".into(), Feat::Distance(unit.into(), initial))];
    c.weights = vec![("distance".into(), 1.0)];
    c.vrates = vec![("distance".into(), VRate::Raw)];
    c
}
fn plain_q(o: usize, d: Option<usize>) -> Qry {
    Qry { o, d, classes: None, weights: None, user: vec![], wf: None, extra: Map::new(), vrates: None, agg: None, prefix: vec![] }
}
/// every class, "no_turn" included, has its own non-zero delay (app_sums)
fn full_turn_table_nz(base: f64) -> Vec<(String, f64)> {
    TURNS.iter().enumerate().map(|(i, t)| (t.to_string(), base * (i as f64 + 0.5))).collect()
}
fn full_turn_table(base: f64) -> Vec<(String, f64)> {
    TURNS.iter().enumerate().map(|(i, t)| (t.to_string(), if i == 0 { 0.0 } else { base * i as f64 })).collect()
}
/// headings from the geometry (whole degrees clockwise from north), self loops 0
fn geo_headings(net: &Net) -> Vec<(i64, Option<i64>)> {
    net.edges
        .iter()
        .map(|(s, d, _, _, _)| {
            if s == d || *s >= net.coords.len() || *d >= net.coords.len() {
                return (0, None);
            }
            let (a, b) = (net.coords[*s], net.coords[*d]);
            let ang = ((b.0 - a.0) * (a.1.to_radians().cos())).atan2(b.1 - a.1).to_degrees();
            let h = ((ang.round() as i64) % 360 + 360) % 360;
            (h, None)
        })
        .collect()
}


// ------------------------------------------------------------------------------------------ what the query means

const HEADER: &str = "From Coq Require Import ZArith QArith List String Floats.\nFrom RC Require Import Base.Show Base.Num Base.Res Model.Units Model.StateOps Model.Traversal Model.Cost Model.TraversalRun Model.Search Model.SearchRun Model.E2ERun.\nImport ListNotations.\nOpen Scope nat_scope.";

struct Sem {
    o: usize,
    d: Option<usize>,
    /// "ok" or why the ids written by the map-matching plugin are not the nearest elements
    mm: String,
}
fn semantics(c: &Cfg, q: &Qry, r: &Resp) -> Sem {
    match c.input {
        Inp::None => Sem { o: q.o, d: q.d, mm: "ok".into() },
        Inp::Vertex => {
            let eo = r.req.get("origin_vertex").and_then(|x| x.as_u64()).map(|x| x as usize);
            let ed = r.req.get("destination_vertex").and_then(|x| x.as_u64()).map(|x| x as usize);
            let ok = eo == Some(q.o) && ed == q.d;
            Sem { o: q.o, d: q.d, mm: if ok { "ok".into() } else { format!("matched({:?},{:?})", eo, ed) } }
        }
        Inp::Edge => {
            let eo = r.req.get("origin_edge").and_then(|x| x.as_u64()).map(|x| x as usize);
            let ed = r.req.get("destination_edge").and_then(|x| x.as_u64()).map(|x| x as usize);
            let nearest = |want: usize, got: Option<usize>| -> bool {
                let (Some(g), true) = (got, want < c.net.edges.len()) else { return false };
                if g >= c.net.edges.len() {
                    return false;
                }
                let p = seg_point(c, want);
                let dist = |e: usize| {
                    let m = seg_point(c, e);
                    ((p.0 - m.0).powi(2) + (p.1 - m.1).powi(2)).sqrt()
                };
                let best = (0..c.net.edges.len()).map(dist).fold(f64::INFINITY, f64::min);
                dist(g) <= best + 1e-6
            };
            let ok = nearest(q.o, eo) && match q.d {
                None => ed.is_none(),
                Some(d) => nearest(d, ed),
            };
            Sem { o: eo.unwrap_or(q.o), d: if q.d.is_some() { ed.or(q.d) } else { None }, mm: if ok { "ok".into() } else { format!("matched({:?},{:?})", eo, ed) } }
        }
    }
}
/// the ids a no-path error must name
fn nopath_ends(c: &Cfg, s: &Sem) -> Option<(usize, usize)> {
    let d = s.d?;
    if c.edge_oriented {
        let e1 = c.net.edges.get(s.o)?;
        let e2 = c.net.edges.get(d)?;
        Some((e1.1, e2.0))
    } else {
        Some((s.o, d))
    }
}
fn coq_edges(c: &Cfg) -> String {
    coq_list(&c.net.edges, |(s, d, _, _, _)| format!("({}, {})", s, d))
}
fn nat_opt(x: &Option<usize>) -> String {
    coq_opt(x, |v| v.to_string())
}
fn forbidden(c: &Cfg, q: &Qry) -> Vec<usize> {
    match (&q.classes, c.road_class) {
        (Some(cl), true) => (0..c.net.edges.len()).filter(|e| !cl.contains(&c.net.edges[*e].4)).collect(),
        _ => vec![],
    }
}
/// vertices reachable from `from` over permitted edges
fn bfs(c: &Cfg, forbid: &[usize], from: usize) -> Vec<bool> {
    let n = c.net.coords.len();
    let mut seen = vec![false; n];
    if from >= n {
        return seen;
    }
    seen[from] = true;
    let mut stack = vec![from];
    while let Some(v) = stack.pop() {
        for (i, (s, d, _, _, _)) in c.net.edges.iter().enumerate() {
            if *s == v && *d < n && !seen[*d] && !forbid.contains(&i) {
                seen[*d] = true;
                stack.push(*d);
            }
        }
    }
    seen
}

struct Ctx {
    /// `error` text of the last response (for the reader of a case description)
    last_err: String,
    st: Stream,
    work: PathBuf,
    stream: String,
}
fn desc(cx: &Ctx, id: usize, fam: &str, c: &Cfg, q: &Qry, short: &str) -> Value {
    json!({"id": id, "error_text": cx.last_err.chars().take(300).collect::<String>(), "family": fam, "stream": cx.stream, "cfg": cfg_json(c), "qry": qry_json(q), "query": query_value(c, q),
           "impl_short": short.chars().take(240).collect::<String>()})
}
fn common_hist(st: &mut Stream, fam: &str, c: &Cfg, q: &Qry, r: &Resp) {
    st.count(&format!("family:{}", fam.split('#').next().unwrap_or(fam)));
    st.count(&format!("status:{}", r.status));
    st.count(&format!("orient:{}", if c.edge_oriented { "edge" } else { "vertex" }));
    st.count(&format!("alg:{}", if c.astar { "a*" } else { "dijkstra" }));
    st.count(&format!("input:{:?}", c.input));
    st.count(&format!("traversal:{}", match c.tm { Tm::Dist(_) => "distance", Tm::Speed { .. } => "speed_table" }));
    st.count(&format!("access:{}", if c.turn.is_some() { "turn_delay" } else { "none" }));
    st.count(&format!("frontier:{}", if c.road_class { if q.classes.is_some() { "road_class+query" } else { "road_class" } } else { "none" }));
    st.count(&format!("route_fmt:{}", c.route_fmt));
    st.count(&format!("tree_fmt:{}", c.tree_fmt.clone().unwrap_or("none".into())));
    st.count(&format!("destination:{}", if q.d.is_some() { "some" } else { "none" }));
    st.count(&format!("n:{}", (c.net.coords.len() + 7) / 8 * 8));
    st.count(&format!("route_edges:{}", if r.path.len() > 6 { "7+".to_string() } else { r.path.len().to_string() }));
    if q.weights.is_some() {
        st.count("query:weights");
    }
    if !q.user.is_empty() {
        st.count("query:state_features");
    }
    if q.wf.is_some() {
        st.count("query:weight_factor");
    }
}
fn build_failed(cx: &mut Ctx, fam: &str, c: &Cfg, q: &Qry, e: &str) {
    let id = cx.st.next_id();
    cx.st.count("BUILD-FAILED");
    let d = desc(cx, id, fam, c, q, e);
    let mut terms = vec![format!("E2E.line_echo \"S\" {}%Z \"the generated configuration builds\"", id)];
    if cx.stream == "app_sums" {
        terms.push(format!("E2E.line_echo \"M\" {}%Z \"the generated configuration builds\"", id));
    }
    cx.st.case(terms, vec![format!("I {} BUILD-FAILED {}", id, e.replace('\n', " "))], d);
}

// ------------------------------------------------------------------------------------------ the direct core run

fn path_cost(si: &SearchInstance, es: &[usize]) -> Option<f64> {
    let mut st = si.state_model.initial_state().ok()?;
    let mut prev = None;
    let mut sum = 0.0;
    for e in es {
        let et = EdgeTraversal::forward_traversal(EdgeId(*e), prev, &st, si).ok()?;
        sum += et.total_cost().as_f64();
        st = et.result_state.clone();
        prev = Some(EdgeId(*e));
    }
    Some(sum)
}
/// the same query through the core API directly (searchkit style): SearchApp::build_search_instance, then
/// SearchAlgorithm::run_vertex_oriented / run_edge_oriented with the ids the query means.  "agree" = same status and
/// same path, or a different path of the same cost (the queue's choice among equal priorities is unspecified).
fn core_compare(app: &Arc<CompassApp>, c: &Cfg, s: &Sem, r: &Resp, query: &Value) -> String {
    if !matches!(r.status.as_str(), "Ok" | "nopath" | "terminated" | "err") {
        return "n/a".into();
    }
    let req = if r.req.is_object() { r.req.clone() } else { query.clone() };
    let app2 = app.clone();
    let (o, d, eo) = (s.o, s.d, c.edge_oriented);
    let res = catch(AssertUnwindSafe(move || {
        let si = app2.search_app.build_search_instance(&req).map_err(|e| sk::classify_error(&e))?;
        let alg = &app2.search_app.search_algorithm;
        let out = if eo {
            alg.run_edge_oriented(EdgeId(o), d.map(EdgeId), &req, &Direction::Forward, &si)
        } else {
            alg.run_vertex_oriented(VertexId(o), d.map(VertexId), &req, &Direction::Forward, &si)
        };
        match out {
            Err(e) => Err(sk::classify_error(&e)),
            Ok(x) => Ok((x.routes.first().map(|rt| rt.iter().map(|et| et.edge_id.0).collect::<Vec<usize>>()), x.trees.iter().map(|t| t.len()).sum::<usize>(), si)),
        }
    }));
    match res {
        Err(_) => "differ:core-panic".into(),
        Ok(Err(cls)) => {
            let short = if cls.starts_with("err") { "err" } else { cls.as_str() };
            // an empty route of a successful search is an output-plugin error in the application
            if r.status == short {
                "agree".into()
            } else {
                format!("differ:core={}", cls)
            }
        }
        Ok(Ok((route, tree_size, si))) => {
            if r.status != "Ok" {
                // origin = destination: the core returns an empty route, the traversal plugin refuses it
                if route.as_ref().map(|p| p.is_empty()).unwrap_or(false) && r.status == "err" {
                    return "agree".into();
                }
                return format!("differ:core=Ok app={}", r.status);
            }
            match (route, r.has_route) {
                (None, false) => {
                    if r.has_tree && r.tree.len() != tree_size {
                        format!("differ:tree-size core={} app={}", tree_size, r.tree.len())
                    } else {
                        "agree".into()
                    }
                }
                (Some(p), true) => {
                    if p == r.path {
                        return "agree".into();
                    }
                    let mid = |x: &[usize]| -> Vec<usize> {
                        if eo && x.len() >= 3 { x[1..x.len() - 1].to_vec() } else { x.to_vec() }
                    };
                    match (path_cost(&si, &mid(&p)), path_cost(&si, &mid(&r.path))) {
                        (Some(a), Some(b)) if (a - b).abs() <= 1e-9 * a.abs().max(b.abs()) => "agree".into(),
                        _ => format!("differ:path core={:?}", p),
                    }
                }
                (a, b) => format!("differ:route core={} app={}", a.is_some(), b),
            }
        }
    }
}

// ------------------------------------------------------------------------------------------ app_walk

fn status_text(c: &Cfg, s: &Sem, r: &Resp, expected: bool) -> String {
    if r.status == "nopath" {
        let ends = if expected { nopath_ends(c, s) } else { r.ends };
        return match ends {
            Some((a, b)) => format!("nopath({},{})", a, b),
            None => "nopath(?)".into(),
        };
    }
    r.status.clone()
}
fn add_walk(cx: &mut Ctx, fam: &str, c: &Cfg, q: &Qry) {
    let id = cx.st.next_id();
    let app = match build(c, &cx.work.join(format!("c{}", id))) {
        Ok(a) => a,
        Err(e) => return build_failed(cx, fam, c, q, &e),
    };
    let query = query_value(c, q);
    let r = run_query(&app, &query);
    let s = semantics(c, q, &r);
    cx.last_err = r.err.clone();
    let core = core_compare(&app, c, &s, &r, &query);
    let mut tree: Vec<(Option<usize>, usize)> = r.tree.iter().map(|(p, e, _)| (*p, *e)).collect();
    tree.sort_by_key(|x| x.1);
    let counts = match (r.route_edges, r.tree_size) {
        (Some(a), Some(b)) => Some((a as usize, b as usize)),
        _ => None,
    };
    let shape = if !r.malformed.is_empty() {
        format!("bad:{}", r.malformed.join("+"))
    } else if matches!(r.status.as_str(), "RunErr" | "bad") {
        format!("bad:{}", r.err)
    } else if c.summary && r.status == "Ok" && counts.is_none() {
        "bad:summary counters missing".into()
    } else if r.status == "Ok" && c.tree_fmt.is_some() && !r.has_tree && !(c.edge_oriented && s.d == Some(s.o)) {
        "bad:no tree in the response".into()
    } else {
        "ok".into()
    };
    let body = format!(
        "path={} tree={} counts={}",
        if r.has_route { show_list(&r.path, |e| e.to_string()) } else { "None".into() },
        if r.has_tree { show_list(&tree, |(p, e)| format!("({},{})", p.map(|x| x.to_string()).unwrap_or("_".into()), e)) } else { "None".into() },
        show_opt(&counts, |(a, b)| format!("{},{}", a, b))
    );
    let payload = format!("{} {} core={} mm={} shape={}", status_text(c, &s, &r, false), body, core, s.mm, shape);
    let expected = format!("{} {} core=agree mm=ok shape=ok", status_text(c, &s, &r, true), body);
    let term = format!(
        "E2E.line_walk {}%Z {} {} {} {} {} {} {} {} {} {}",
        id,
        c.net.coords.len(),
        coq_edges(c),
        coq_bool(c.edge_oriented),
        s.o,
        nat_opt(&s.d),
        coq_string(&r.status),
        if r.has_tree { format!("[{}]", coq_list(&tree, |(p, e)| format!("({}, {})", nat_opt(p), e))) } else { "[]".into() },
        if r.has_route { format!("[{}]", coq_list(&r.path, |e| e.to_string())) } else { "[]".into() },
        coq_opt(&counts, |(a, b)| format!("({}, {})", a, if c.tree_fmt.is_some() { format!("(Some {})", b) } else { "None".to_string() })),
        coq_string(&expected)
    );
    common_hist(&mut cx.st, fam, c, q, &r);
    cx.st.count(&format!("tree_size:{}", (r.tree.len() + 3) / 4 * 4));
    cx.st.count(&format!("core:{}", core.split(':').next().unwrap_or("")));
    if r.path.len() >= 2 || r.tree.len() >= 3 || r.status != "Ok" {
        cx.st.mark_nontrivial(&format!("{}|{}", cfg_json(c), qry_json(q)));
    }
    let d = desc(cx, id, fam, c, q, &payload);
    cx.st.case(vec![term], vec![format!("I {} {}", id, payload)], d);
}

// ------------------------------------------------------------------------------------------ app_reach

fn add_reach(cx: &mut Ctx, fam: &str, c: &Cfg, q: &Qry) {
    let id = cx.st.next_id();
    let app = match build(c, &cx.work.join(format!("c{}", id))) {
        Ok(a) => a,
        Err(e) => return build_failed(cx, fam, c, q, &e),
    };
    let query = query_value(c, q);
    let r = if q.prefix.is_empty() {
        run_query(&app, &query)
    } else {
        // a sequence on ONE application instance (C05: an earlier answer -- in particular an earlier 'no path' -- must not
        // change a later one): first one run call per earlier query, then the earlier queries and the judged one in ONE
        // batch (parallelism 1: one chunk, answered one after the other by one worker thread).  The judged response is
        // found by the tag echoed in its `request`.
        for pq in &q.prefix {
            let _ = run_query(&app, &query_value(c, pq));
        }
        let mut batch: Vec<Value> = q.prefix.iter().map(|pq| query_value(c, pq)).collect();
        batch.push(query.clone());
        for (i, b) in batch.iter_mut().enumerate() {
            if let Some(m) = b.as_object_mut() {
                m.insert("c05_seq".into(), json!(i));
            }
        }
        let k = batch.len() - 1;
        cx.st.count(&format!("sequence_position:{}", k + 1));
        match run_watchdog(&app, batch, None, WATCHDOG_MS * (k as u64 + 1)) {
            RunOutcome::Ok(vs) => parse_response(&RunOutcome::Ok(vs.into_iter().filter(|v| v["request"]["c05_seq"] == json!(k)).collect())),
            o => parse_response(&o),
        }
    };
    let s = semantics(c, q, &r);
    cx.last_err = r.err.clone();
    let forbid = forbidden(c, q);
    let init = match c.state.first() {
        Some((_, Feat::Distance(_, i))) => *i,
        _ => 0.0,
    };
    // destination-less: (vertex = far end of the branch's edge, label = the branch's accumulated distance), by vertex
    let mut labels: Vec<(usize, f64)> = r
        .tree
        .iter()
        .map(|(_, e, st)| (c.net.edges.get(*e).map(|x| x.1).unwrap_or(usize::MAX >> 8), st.first().copied().unwrap_or(f64::NAN)))
        .collect();
    labels.sort_by(|a, b| a.0.cmp(&b.0).then(a.1.total_cmp(&b.1)));
    let text = if r.status != "Ok" {
        r.status.clone()
    } else if s.d.is_some() {
        format!("Ok routes={}", if r.has_route { format!("[{}]", show_list(&r.path, |e| e.to_string())) } else { "[]".into() })
    } else {
        format!(
            "Ok verts={} labels={}",
            if r.has_tree { format!("[{}]", show_list(&labels, |x| x.0.to_string())) } else { "[]".into() },
            if r.has_tree { format!("[{}]", show_list(&labels, |x| format!("{}:{}", x.0, show_f64(x.1)))) } else { "[]".into() }
        )
    };
    let mut payload = text.clone();
    if s.mm != "ok" {
        payload += &format!(" mm={}", s.mm);
    }
    if !r.malformed.is_empty() || matches!(r.status.as_str(), "RunErr" | "bad") {
        payload += &format!(" shape=bad:{}{}", r.malformed.join("+"), r.err);
    }
    let term = format!(
        "E2E.line_reach {}%Z {} {} {} {} {} {} {} {} {} {} {} {}",
        id,
        c.net.coords.len(),
        coq_edges(c),
        coq_list(&c.net.edges, |e| sk::coq_q(e.2)),
        coq_list(&forbid, |e| e.to_string()),
        sk::coq_q(init),
        coq_bool(c.edge_oriented),
        s.o,
        nat_opt(&s.d),
        coq_string(&r.status),
        if r.has_tree && s.d.is_none() {
            format!("[{}]", coq_list(&labels, |(v, l)| format!("({}, {})", v, if l.is_finite() { sk::coq_q(*l) } else { "(0 # 1)%Q".to_string() })))
        } else {
            "[]".into()
        },
        if r.has_route { format!("[{}]", coq_list(&r.path, |e| e.to_string())) } else { "[]".into() },
        coq_string(&text)
    );
    common_hist(&mut cx.st, fam, c, q, &r);
    cx.st.count(&format!("forbidden_edges:{}", if forbid.is_empty() { "none" } else if forbid.len() * 3 < c.net.edges.len() { "<1/3" } else { ">=1/3" }));
    if s.d.is_none() {
        cx.st.count(&format!("tree_size:{}", if r.tree.len() > 8 { "9+".to_string() } else { r.tree.len().to_string() }));
        cx.st.count(&format!("unreached_vertices:{}", if c.net.coords.len() > r.tree.len() + 1 { "some" } else { "none" }));
    }
    if r.status == "nopath" || (s.d.is_none() && r.tree.len() >= 2) || r.path.len() >= 2 {
        cx.st.mark_nontrivial(&format!("{}|{}", cfg_json(c), qry_json(q)));
    }
    let d = desc(cx, id, fam, c, q, &payload);
    cx.st.case(vec![term], vec![format!("I {} {}", id, payload)], d);
}


// ------------------------------------------------------------------------------------------ app_sums

fn cnum(x: f64) -> String {
    format!("(c {})", coq_f64(x))
}
fn coq_feat(f: &Feat) -> String {
    match f {
        Feat::Distance(u, i) => format!("StateOps.FDistance Units.{} {}", u, cnum(*i)),
        Feat::Time(u, i) => format!("StateOps.FTime Units.{} {}", u, cnum(*i)),
        Feat::Custom(t, i) => format!("StateOps.FCustom {} {}", coq_string(t), cnum(*i)),
    }
}
fn coq_feats(l: &[(String, Feat)]) -> String {
    coq_list(l, |(n, f)| format!("({}, {})", coq_string(n), coq_feat(f)))
}
/// the configuration + query as a TR.case_gen (same shape as harness/src/bin/c03.rs emits); the operation is a
/// placeholder that E2E.sums_case replaces by OForward <returned path>
fn coq_case(c: &Cfg, q: &Qry) -> String {
    let tm = match &c.tm {
        Tm::Dist(u) => format!("(TR.TDist Units.{})", u),
        Tm::Speed { su, du, tu } => format!(
            "(TR.TSpeed {} Units.{} {} {})",
            coq_list(&c.net.edges, |e| cnum(e.3)),
            su,
            // the application merges every configuration with config.default.toml, whose [traversal] section says
            // distance_unit = "kilometers": a speed_table section without a distance unit inherits that key
            format!("(Some Units.{})", du.clone().unwrap_or("Kilometers".into())),
            coq_opt(tu, |u| format!("Units.{}", u))
        ),
    };
    let am = match &c.turn {
        None => "TR.ANone".to_string(),
        Some(t) => format!(
            "(TR.ATurn {} {} Units.{} {})",
            coq_list(&t.headings, |(a, d)| format!("Traversal.Build_heading {} {}", coq_z(*a as i128), coq_opt(d, |x| coq_z(*x as i128)))),
            coq_list(&t.table, |(k, d)| format!("(Traversal.{}, {})", k, cnum(*d))),
            t.unit,
            coq_string("time")
        ),
    };
    let weights = q.weights.as_ref().unwrap_or(&c.weights);
    // the rates in force for THIS query: the query's weights / vehicle_rates / cost_aggregation replace the configured ones
    let vrates = q.vrates.as_ref().unwrap_or(&c.vrates);
    let cost = format!(
        "(TR.Build_cost_cfg {} {} [] {})",
        coq_list(weights, |(n, w)| format!("({}, {})", coq_string(n), cnum(*w))),
        coq_list(vrates, |(n, r)| format!("({}, {})", coq_string(n), vr_coq(r))),
        if q.agg.as_deref() == Some("mul") { "Cost.AMul" } else { "Cost.ASum" }
    );
    format!(
        "(fun (A : Type) (c : float -> A) => TR.Build_case_t {} {} {} {} {} {} {} (TR.OForward []) true)",
        coq_nat(c.net.coords.len()),
        coq_list(&c.net.edges, |(s, d, l, _, _)| format!("({}, {}, {})", coq_nat(*s), coq_nat(*d), cnum(*l))),
        coq_feats(&c.state),
        coq_feats(&q.user),
        tm,
        am,
        cost
    )
}
/// route.cost_model (CostModel::serialize_cost_info) in canonical text: per feature (sorted by name) its weight and
/// vehicle rate, then the aggregation -- the cost model THIS response was computed with, as the application reports it
fn echo_of(v: &Value) -> String {
    let m = match v.as_object() {
        Some(m) => m,
        None => return "none".into(),
    };
    let mut feats: Vec<(String, String)> = vec![];
    let mut agg = "?".to_string();
    for (k, x) in m {
        if k == "cost_aggregation" {
            agg = x.as_str().unwrap_or("?").to_string();
            continue;
        }
        let w = x.get("weight").and_then(|y| y.as_f64()).map(show_f64).unwrap_or("?".into());
        let r = match x.get("vehicle_rate") {
            Some(Value::String(t)) if t.starts_with("Combined(") => "combined".to_string(),
            Some(Value::Object(o)) => match o.get("type").and_then(|t| t.as_str()) {
                Some("factor") => format!("factor({})", o.get("factor").and_then(|y| y.as_f64()).map(show_f64).unwrap_or("?".into())),
                Some("offset") => format!("offset({})", o.get("offset").and_then(|y| y.as_f64()).map(show_f64).unwrap_or("?".into())),
                Some(t) => t.to_string(),
                None => "?".into(),
            },
            _ => "?".into(),
        };
        feats.push((k.clone(), format!("{}:w={},v={}", k, w, r)));
    }
    feats.sort_by(|a, b| a.0.as_bytes().cmp(b.0.as_bytes()));
    format!("{};agg={}", feats.into_iter().map(|x| x.1).collect::<Vec<_>>().join(";"), agg)
}
fn show_kv(kv: &[(String, f64)]) -> String {
    format!("{{{}}}", kv.iter().map(|(k, v)| format!("{}:{}", k, show_f64(*v))).collect::<Vec<_>>().join(","))
}
fn add_sums(cx: &mut Ctx, fam: &str, c: &Cfg, q: &Qry) {
    let id = cx.st.next_id();
    let app = match build(c, &cx.work.join(format!("c{}", id))) {
        Ok(a) => a,
        Err(e) => return build_failed(cx, fam, c, q, &e),
    };
    // a sequence: the queries this application instance answered before (one after another; their answers are judged
    // by the cases that have them as their last query)
    for pq in &q.prefix {
        let _ = run_query(&app, &query_value(c, pq));
    }
    if !q.prefix.is_empty() {
        cx.st.count(&format!("sequence_position:{}", q.prefix.len() + 1));
        let over = |x: &Qry| x.weights.is_some() || x.vrates.is_some() || x.agg.is_some();
        if q.prefix.iter().any(over) && !over(q) {
            cx.st.count("plain_query_after_cost_override");
        }
    }
    if q.vrates.is_some() {
        cx.st.count("query:vehicle_rates");
    }
    if q.agg.is_some() {
        cx.st.count("query:cost_aggregation");
    }
    if c.vrates.iter().chain(q.vrates.iter().flatten()).any(|(_, r)| matches!(r, VRate::Combined(_))) {
        cx.st.count("combined_vehicle_rate");
    }
    let query = query_value(c, q);
    let r = run_query(&app, &query);
    let s = semantics(c, q, &r);
    cx.last_err = r.err.clone();
    common_hist(&mut cx.st, fam, c, q, &r);
    if let Tm::Speed { su, du, tu } = &c.tm {
        cx.st.count(&format!("units:{}/{}/{}", su, du.clone().unwrap_or("default".into()), tu.clone().unwrap_or("default".into())));
    }
    if let Tm::Dist(u) = &c.tm {
        cx.st.count(&format!("units:{}", u));
    }
    if let Some(t) = &c.turn {
        cx.st.count(&format!("delay_unit:{}", t.unit));
    }
    if c.ksp.is_some() || c.edge_oriented {
        return add_sums_multi(cx, fam, c, q, &app, &query, &r, &s, id);
    }
    let judged = r.status == "Ok" && r.has_route && !r.recs.is_empty() && r.recs.len() == r.path.len() && r.malformed.is_empty() && s.mm == "ok";
    let (terms, payload) = if judged {
        // the declared initial state of the instance this query builds (the response does not show it)
        let app2 = app.clone();
        let q2 = if r.req.is_object() { r.req.clone() } else { query.clone() };
        let init: Vec<f64> = catch(AssertUnwindSafe(move || app2.search_app.build_search_instance(&q2).ok().and_then(|si| si.state_model.initial_state().ok()).map(|v| v.iter().map(|x| x.0).collect::<Vec<f64>>())))
            .ok()
            .flatten()
            .unwrap_or_default();
        let totals: Vec<f64> = r.recs.iter().map(|et| et.total_cost().as_f64()).collect();
        let route = show_list(&r.recs, |et| format!("{}:{}:{}:{}", et.edge_id.0, show_f64(et.access_cost.as_f64()), show_f64(et.traversal_cost.as_f64()), show_list(&et.result_state, |x| show_f64(x.0))));
        let echo = echo_of(r.raw.get("route").and_then(|x| x.get("cost_model")).unwrap_or(&Value::Null));
        let payload = format!("route={}/{} sum={} cost={} echo={}", route, show_list(&totals, |x| show_f64(*x)), show_kv(&r.summary), show_kv(&r.cost), echo);
        let gen = coq_case(c, q);
        let path = coq_list(&r.path, |e| coq_nat(*e));
        let recs = coq_list(&r.recs, |et| {
            format!("Traversal.Build_etrav {} {} {} {}", coq_nat(et.edge_id.0), coq_f64(et.access_cost.as_f64()), coq_f64(et.traversal_cost.as_f64()), coq_list(&et.result_state, |x| coq_f64(x.0)))
        });
        let kv = |l: &[(String, f64)]| coq_list(l, |(k, v)| format!("({}, {})", coq_string(k), coq_f64(*v)));
        (
            vec![
                format!("E2E.line_sums_M {}%Z {} {}", id, gen, path),
                format!("E2E.line_sums_S {}%Z {} {} {} {} {} {} {}", id, gen, path, coq_list(&init, |x| coq_f64(*x)), recs, coq_list(&totals, |x| coq_f64(*x)), kv(&r.summary), kv(&r.cost)),
            ],
            payload,
        )
    } else {
        // no route to judge: a route is expected exactly when the destination is reachable (plain search, no frontier)
        let reach = s.d.map(|d| bfs(c, &[], s.o).get(d).copied().unwrap_or(false) && d != s.o).unwrap_or(false);
        let expected = if reach { "a judged route (reachable destination)" } else { "nopath" };
        let mut payload = r.status.clone();
        if r.status == "Ok" {
            payload = format!("Ok route={} records={} mm={} shape={}", r.has_route, r.recs.len(), s.mm, r.malformed.join("+"));
        }
        (vec![format!("E2E.line_echo \"M\" {}%Z {}", id, coq_string(expected)), format!("E2E.line_echo \"S\" {}%Z {}", id, coq_string(expected))], payload)
    };
    let unit_differs = match (&c.tm, c.state.first(), q.user.first()) {
        (_, _, Some(_)) => true,
        (Tm::Speed { du, tu, .. }, _, _) => du.is_some() || tu.is_some(),
        (Tm::Dist(u), Some((_, Feat::Distance(fu, _))), _) => u != fu,
        _ => false,
    };
    let delay = r.recs.iter().skip(1).any(|et| et.access_cost.as_f64() > 1e-9);
    if judged {
        cx.st.count(if delay { "turn_delay_charged" } else { "no_turn_delay_charged" });
    }
    if judged && r.path.len() >= 2 && (unit_differs || delay) {
        cx.st.mark_nontrivial(&format!("{}|{}", cfg_json(c), qry_json(q)));
    }
    let d = desc(cx, id, fam, c, q, &payload);
    cx.st.case(terms, vec![format!("I {} {}", id, payload)], d);
}

/// responses that may carry several routes (k-shortest paths) and / or the zero-cost end edges of an edge-oriented
/// query: EVERY route's records, traversal_summary and cost are judged against that route's OWN path
#[allow(clippy::too_many_arguments)]
fn add_sums_multi(cx: &mut Ctx, fam: &str, c: &Cfg, q: &Qry, app: &Arc<CompassApp>, query: &Value, r: &Resp, s: &Sem, id: usize) {
    let mut malformed: Vec<String> = r.malformed.iter().filter(|m| *m != "route is neither object nor null").cloned().collect();
    let routes = if r.status == "Ok" { parse_routes(&r.raw, &mut malformed) } else { vec![] };
    let judged = r.status == "Ok" && !routes.is_empty() && routes.iter().all(|ro| !ro.recs.is_empty() && ro.recs.len() == ro.path.len()) && malformed.is_empty() && s.mm == "ok";
    cx.st.count(&format!("routes_in_response:{}", routes.len().min(5)));
    if let Some(k) = &c.ksp {
        cx.st.count(&format!("ksp_k:{}", k.k));
    }
    let ends: std::collections::BTreeSet<Vec<u64>> = routes.iter().filter_map(|ro| ro.recs.last().map(|et| et.result_state.iter().map(|x| x.0.to_bits()).collect())).collect();
    if ends.len() >= 2 {
        cx.st.count("routes_end_in_different_states");
    }
    let (terms, payload) = if judged {
        let app2 = app.clone();
        let q2 = if r.req.is_object() { r.req.clone() } else { query.clone() };
        let init: Vec<f64> = catch(AssertUnwindSafe(move || app2.search_app.build_search_instance(&q2).ok().and_then(|si| si.state_model.initial_state().ok()).map(|v| v.iter().map(|x| x.0).collect::<Vec<f64>>())))
            .ok()
            .flatten()
            .unwrap_or_default();
        // the operation the model re-runs: an edge-oriented query between two edges that are neither equal nor adjacent
        // frames every route with the zero-cost origin and destination edges
        let framed = match (c.edge_oriented, s.d) {
            (true, Some(d)) => s.o != d && c.net.edges.get(s.o).map(|e| e.1) != c.net.edges.get(d).map(|e| e.0),
            _ => false,
        };
        let nats = |l: &[usize]| coq_list(l, |e| coq_nat(*e));
        let op = if framed {
            cx.st.count("framed_by_zero_cost_end_edges");
            format!("(TR.OEdge {} {} {})", coq_nat(s.o), coq_nat(s.d.unwrap_or(0)), coq_list(&routes, |ro| nats(if ro.path.len() >= 2 { &ro.path[1..ro.path.len() - 1] } else { &ro.path[..] })))
        } else {
            format!("(TR.OMulti {})", coq_list(&routes, |ro| nats(&ro.path)))
        };
        let tot = |ro: &RouteOut| -> Vec<f64> { ro.recs.iter().map(|et| et.total_cost().as_f64()).collect() };
        let text = routes
            .iter()
            .enumerate()
            .map(|(k, ro)| {
                format!(
                    "r{}={}/{}",
                    k,
                    show_list(&ro.recs, |et| format!("{}:{}:{}:{}", et.edge_id.0, show_f64(et.access_cost.as_f64()), show_f64(et.traversal_cost.as_f64()), show_list(&et.result_state, |x| show_f64(x.0)))),
                    show_list(&tot(ro), |x| show_f64(*x))
                )
            })
            .collect::<Vec<_>>()
            .join(" ");
        let payload = format!("{} sums={} costs={} echo={}", text, show_list(&routes, |ro| show_kv(&ro.summary)), show_list(&routes, |ro| show_kv(&ro.cost)), routes.iter().map(|ro| ro.echo.clone()).collect::<Vec<_>>().join("|"));
        let gen = coq_case(c, q);
        let kv = |l: &[(String, f64)]| coq_list(l, |(k, v)| format!("({}, {})", coq_string(k), coq_f64(*v)));
        let recs = |ro: &RouteOut| {
            coq_list(&ro.recs, |et| format!("Traversal.Build_etrav {} {} {} {}", coq_nat(et.edge_id.0), coq_f64(et.access_cost.as_f64()), coq_f64(et.traversal_cost.as_f64()), coq_list(&et.result_state, |x| coq_f64(x.0))))
        };
        (
            vec![
                format!("E2E.line_sums_multi_M {}%Z {} {}", id, gen, op),
                format!(
                    "E2E.line_sums_multi_S {}%Z {} {} {} {}",
                    id,
                    gen,
                    op,
                    coq_list(&init, |x| coq_f64(*x)),
                    coq_list(&routes, |ro| format!("({}, {}, {}, {})", recs(ro), coq_list(&tot(ro), |x| coq_f64(*x)), kv(&ro.summary), kv(&ro.cost)))
                ),
            ],
            payload,
        )
    } else {
        // no route to judge: a route is expected exactly when the destination can be reached and is not the origin itself
        let start = if c.edge_oriented { c.net.edges.get(s.o).map(|e| e.1) } else { Some(s.o) };
        let goal = if c.edge_oriented { s.d.and_then(|d| c.net.edges.get(d).map(|e| e.0)) } else { s.d };
        let same = s.d == Some(s.o);
        let adjacent = c.edge_oriented && start.is_some() && start == goal;
        let reach = match (start, goal) {
            (Some(a), Some(b)) => !same && (adjacent || (a != b && bfs(c, &[], a).get(b).copied().unwrap_or(false))),
            _ => false,
        };
        let expected = if reach { "a judged route (reachable destination)" } else { "nopath" };
        let mut payload = r.status.clone();
        if r.status == "Ok" {
            payload = if c.edge_oriented && same && routes.is_empty() { "nopath".to_string() } else { format!("Ok routes={} mm={} shape={}", routes.len(), s.mm, malformed.join("+")) };
        }
        (vec![format!("E2E.line_echo \"M\" {}%Z {}", id, coq_string(expected)), format!("E2E.line_echo \"S\" {}%Z {}", id, coq_string(expected))], payload)
    };
    let delay = routes.iter().any(|ro| ro.recs.iter().skip(1).any(|et| et.access_cost.as_f64() > 1e-9));
    if judged && (routes.len() >= 2 || delay || c.edge_oriented) && routes.iter().any(|ro| ro.path.len() >= 2) {
        cx.st.mark_nontrivial(&format!("{}|{}", cfg_json(c), qry_json(q)));
    }
    let d = desc(cx, id, fam, c, q, &payload);
    cx.st.case(terms, vec![format!("I {} {}", id, payload)], d);
}


// ------------------------------------------------------------------------------------------ deterministic families

/// searchkit's boundary worlds that a configuration file can express (forward, Dijkstra / default A*, no turn /
/// failure tables, no limit): vertex i on grid cell i, length = 1000 * table cost, forbidden edges = road class 1
fn converted_boundaries(variety: bool) -> Vec<(String, Cfg, Qry)> {
    let mut out = vec![];
    for (i, (name, w, q)) in sk::boundary_cases().into_iter().enumerate() {
        let alg_ok = matches!(q.alg, sk::Alg::Dijkstra | sk::Alg::AStar(None));
        if q.dir != sk::Dir::Forward || !alg_ok || !w.turn.is_empty() || !w.fturn.is_empty() || !w.ferr.is_empty() || !w.terr.is_empty() || w.term != sk::Term::Unlimited || w.h.iter().any(|x| *x != 0.0) || w.init != 0.0 || q.query_wf.is_some() || w.n > 64 {
            continue;
        }
        let edges = w.edges.iter().enumerate().map(|(e, (s, d))| (*s, *d, (w.cost[e] * 1000.0).round().max(1.0), SPEEDS[e % SPEEDS.len()], if w.forbid.contains(&e) { 1u8 } else { 0u8 })).collect();
        let net = Net { coords: (0..w.n).map(cell).collect(), edges };
        let mut c = dist_cfg(net, "Meters", 0.0);
        c.astar = q.alg != sk::Alg::Dijkstra;
        c.edge_oriented = q.orient == sk::Orient::Edge;
        let mut qq = plain_q(q.source, q.target);
        if !w.forbid.is_empty() {
            c.road_class = true;
            qq.classes = Some(vec![0]);
        }
        if variety {
            c.route_fmt = if i % 3 == 0 { "json".into() } else { "edge_id".into() };
            c.tree_fmt = match i % 4 {
                0 => Some("edge_id".into()),
                3 => None,
                _ => Some("json".into()),
            };
            c.summary = i % 5 != 0;
            let in_range = q.source < (if c.edge_oriented { w.edges.len() } else { w.n }) && q.target.map(|t| t < (if c.edge_oriented { w.edges.len() } else { w.n })).unwrap_or(true);
            if i % 7 == 3 && in_range {
                c.input = if c.edge_oriented { Inp::Edge } else { Inp::Vertex };
            }
        }
        out.push((name, c, qq));
    }
    out
}

fn reach_shapes() -> Vec<(String, Cfg, Qry)> {
    let mut out = vec![];
    for astar in [false, true] {
        let mut mk = |name: &str, n: usize, es: &[(usize, usize)], forbid: &[usize], eo: bool, o: usize, d: Option<usize>, classes: Option<Vec<u8>>| {
            let coords: Vec<(f64, f64)> = (0..n).map(cell).collect();
            let net = net_of(coords, es, |i| 1.1 + 0.3 * (i % 3) as f64, |i| SPEEDS[i % 8], |i| if forbid.contains(&i) { 1 } else { 0 });
            let mut c = dist_cfg(net, "Meters", if o % 2 == 1 { 1000.0 } else { 0.0 });
            c.astar = astar;
            c.road_class = true;
            c.edge_oriented = eo;
            let mut q = plain_q(o, d);
            q.classes = classes;
            out.push((name.to_string(), c, q));
        };
        let only0 = Some(vec![0u8]);
        mk("forbidden_bridge", 4, &[(0, 1), (1, 2), (2, 3)], &[1], false, 0, Some(3), only0.clone());
        mk("forbidden_bridge_no_target", 4, &[(0, 1), (1, 2), (2, 3)], &[1], false, 0, None, only0.clone());
        mk("forbidden_parallel", 3, &[(0, 1), (0, 1), (1, 2)], &[0], false, 0, Some(2), only0.clone());
        mk("forbidden_parallel_no_target", 3, &[(0, 1), (0, 1), (1, 2)], &[0], false, 0, None, only0.clone());
        mk("forbidden_first_hop", 3, &[(0, 1), (0, 2), (1, 2)], &[0, 1], false, 0, Some(2), only0.clone());
        mk("forbidden_first_hop_one", 3, &[(0, 1), (0, 2), (1, 2)], &[0], false, 0, Some(1), only0.clone());
        mk("forbidden_first_hop_no_target", 3, &[(0, 1), (0, 2), (1, 2)], &[0], false, 0, None, only0.clone());
        mk("forbidden_last_hop", 3, &[(0, 1), (1, 2)], &[1], false, 0, Some(2), only0.clone());
        mk("everything_forbidden", 3, &[(0, 1), (1, 2)], &[], false, 0, Some(2), Some(vec![]));
        mk("everything_forbidden_no_target", 3, &[(0, 1), (1, 2)], &[], false, 0, None, Some(vec![]));
        mk("other_class_only", 3, &[(0, 1), (1, 2)], &[1], false, 0, Some(2), Some(vec![1, 2]));
        mk("no_class_list_in_query", 3, &[(0, 1), (1, 2)], &[1], false, 0, Some(2), None);
        mk("several_classes", 3, &[(0, 1), (1, 2)], &[1], false, 0, Some(2), Some(vec![3, 1, 0]));
        mk("two_components", 4, &[(0, 1), (1, 0), (2, 3), (3, 2)], &[], false, 1, Some(3), only0.clone());
        mk("two_components_no_target", 4, &[(0, 1), (1, 0), (2, 3), (3, 2)], &[], false, 1, None, only0.clone());
        mk("one_way_street_against", 3, &[(0, 1), (1, 2)], &[], false, 2, Some(0), only0.clone());
        let chain = [(0usize, 1usize), (1, 2), (2, 3), (3, 4)];
        mk("eo_forbidden_between", 5, &chain, &[1], true, 0, Some(3), only0.clone());
        mk("eo_forbidden_origin_edge", 5, &chain, &[0], true, 0, Some(3), only0.clone());
        mk("eo_forbidden_destination_edge", 5, &chain, &[3], true, 0, Some(3), only0.clone());
        mk("eo_adjacent_forbidden_destination", 5, &chain, &[1], true, 0, Some(1), only0.clone());
        mk("eo_forbidden_no_target", 5, &chain, &[2], true, 0, None, only0.clone());
        mk("eo_unreachable_backwards", 5, &chain, &[], true, 3, Some(0), only0.clone());
    }
    // sequences on one application instance: 'no path' (or another failing query) first, then queries over the same vertices
    let base: Vec<(String, Cfg, Qry)> = out.clone();
    let find = |name: &str, astar: bool| base.iter().find(|(n, c, _)| n == name && c.astar == astar).map(|(_, c, q)| (c.clone(), q.clone())).unwrap();
    for astar in [false, true] {
        // two_components: 1 -> 3 has no path; 1 -> 0 has one; the tree from 1 is {0}
        let (c, failing) = find("two_components", astar);
        for (name, o, d) in [("sequence_nopath_then_reachable", 1usize, Some(0usize)), ("sequence_nopath_then_tree", 1, None), ("sequence_nopath_then_other_origin", 0, Some(1))] {
            let mut q = failing.clone();
            q.o = o;
            q.d = d;
            q.prefix = vec![failing.clone()];
            let mut ck = c.clone();
            if d.is_none() {
                ck.tree_fmt = Some("json".into());
            }
            out.push((name.to_string(), ck, q));
        }
        let mut q = failing.clone();
        q.d = Some(0);
        let mut unknown = failing.clone();
        unknown.o = 9;
        q.prefix = vec![failing.clone(), unknown, failing.clone()];
        out.push(("sequence_three_failures_then_reachable".to_string(), c.clone(), q));
        // forbidden_bridge: 0 -> 3 has no path under the class list; 0 -> 1 has one
        let (c, failing) = find("forbidden_bridge", astar);
        let mut q = failing.clone();
        q.d = Some(1);
        q.prefix = vec![failing.clone()];
        out.push(("sequence_forbidden_bridge_then_neighbour".to_string(), c.clone(), q));
        let mut q = failing.clone();
        q.d = None;
        q.prefix = vec![failing.clone()];
        let mut ck = c.clone();
        ck.tree_fmt = Some("json".into());
        out.push(("sequence_forbidden_bridge_then_tree".to_string(), ck, q));
        // only successful queries before
        let mut q = failing.clone();
        q.d = Some(1);
        q.prefix = vec![q.clone(), q.clone()];
        out.push(("sequence_all_successful".to_string(), c, q));
    }
    out
}

fn zigzag() -> (Vec<(f64, f64)>, Vec<(usize, usize)>) {
    // 0 -> 1 -> 2 -> 3 -> 4 with a right, a left and a right turn, both directions, a slow direct edge 0 -> 4,
    // a parallel twin of the first edge, a self loop, an isolated vertex 5
    let coords = vec![cell(0), cell(1), cell(9), cell(10), cell(18), cell(40)];
    let edges = vec![(0, 1), (1, 2), (2, 3), (3, 4), (1, 0), (2, 1), (3, 2), (4, 3), (0, 4), (0, 1), (2, 2)];
    (coords, edges)
}
fn zig_net() -> Net {
    let (coords, edges) = zigzag();
    net_of(coords, &edges, |i| if i == 8 { 3.0 } else if i == 9 { 1.5 } else { 1.05 + 0.07 * i as f64 }, |i| SPEEDS[(i * 3) % 8], |_| 0)
}
fn sums_shapes() -> Vec<(String, Cfg, Qry)> {
    let mut out: Vec<(String, Cfg, Qry)> = vec![];
    let net = zig_net();
    let json_route = |mut c: Cfg| {
        c.route_fmt = "json".into();
        c
    };
    for (i, u) in DIST.iter().enumerate() {
        let mut c = json_route(dist_cfg(net.clone(), u, 0.0));
        c.astar = i % 2 == 0;
        out.push(("distance_unit".into(), c, plain_q(0, Some(4))));
        // feature unit differs from the model's unit, non-zero declared initial value
        let mut c = json_route(dist_cfg(net.clone(), "Kilometers", 0.0));
        c.state = vec![("distance".into(), Feat::Distance(u.to_string(), 12.5))];
        c.astar = i % 2 == 1;
        out.push(("distance_feature_unit".into(), c, plain_q(0, Some(4))));
    }
    let mut k = 0;
    for su in SPEED {
        for du in [None, Some("Miles")] {
            for tu in [None, Some("Minutes"), Some("Hours")] {
                let mut c = json_route(base_cfg(net.clone()));
                c.tm = Tm::Speed { su: su.into(), du: du.map(|x| x.to_string()), tu: tu.map(|x| x.to_string()) };
                c.astar = k % 2 == 0;
                c.weights = vec![("distance".into(), (k % 3) as f64), ("time".into(), 1.0)];
                c.summary = k % 2 == 1;
                out.push(("speed_units".into(), c, plain_q(0, Some(4))));
                k += 1;
            }
        }
    }
    for (i, u) in TIME.iter().enumerate() {
        let mut c = json_route(base_cfg(net.clone()));
        c.tm = Tm::Speed { su: "KilometersPerHour".into(), du: None, tu: Some(TIME[(i + 1) % 4].into()) };
        c.turn = Some(TurnCfg { headings: geo_headings(&net), table: full_turn_table_nz(1.5), unit: u.to_string() });
        c.astar = i % 2 == 0;
        out.push(("turn_delay_unit".into(), c.clone(), plain_q(0, Some(4))));
        if i == 0 {
            out.push(("turn_delay_back".into(), c, plain_q(4, Some(0))));
        }
    }
    // the query's own state features (units and initial values), weights, weight factor
    let mut c = json_route(base_cfg(net.clone()));
    c.turn = Some(TurnCfg { headings: geo_headings(&net), table: full_turn_table_nz(4.0), unit: "Seconds".into() });
    let mut q = plain_q(0, Some(4));
    q.user = vec![("distance".into(), Feat::Distance("Miles".into(), 5.0)), ("time".into(), Feat::Time("Hours".into(), 0.25))];
    out.push(("query_state_features".into(), c.clone(), q));
    let mut q = plain_q(0, Some(3));
    q.user = vec![("time".into(), Feat::Time("Milliseconds".into(), 0.0))];
    q.weights = Some(vec![("distance".into(), 1.0)]);
    out.push(("query_weights".into(), c.clone(), q));
    let mut q = plain_q(1, Some(4));
    q.wf = Some(0.5);
    out.push(("query_weight_factor".into(), c.clone(), q));
    let mut c2 = c.clone();
    c2.vrates = vec![("distance".into(), VRate::Factor(0.25)), ("time".into(), VRate::Factor(3.0))];
    c2.weights = vec![("distance".into(), 1.0), ("time".into(), 1.0)];
    out.push(("vehicle_rate_factor".into(), c2, plain_q(0, Some(4))));
    // extra configured feature nobody writes to
    let mut c3 = c.clone();
    c3.state = vec![("soc".into(), Feat::Custom("soc".into(), 0.5))];
    out.push(("extra_feature".into(), c3, plain_q(0, Some(4))));
    // one edge; the cheaper of two parallel edges; coordinates instead of ids; no route
    out.push(("single_edge".into(), c.clone(), plain_q(1, Some(2))));
    out.push(("parallel_edges".into(), c.clone(), plain_q(0, Some(1))));
    let mut c4 = c.clone();
    c4.input = Inp::Vertex;
    out.push(("map_matched".into(), c4, plain_q(4, Some(1))));
    out.push(("unreachable".into(), c.clone(), plain_q(0, Some(5))));
    let mut c5 = json_route(dist_cfg(net.clone(), "Feet", 100.0));
    c5.input = Inp::Vertex;
    c5.astar = false;
    out.push(("map_matched".into(), c5, plain_q(3, Some(0))));
    // several routes in one response (single-via k-shortest paths): every route has its own summary and cost;
    // edge-oriented queries: every route is framed by the zero-cost origin and destination edges
    for k in 2..=4usize {
        for (j, mk_net) in [diamond_net as fn() -> Net, two_lanes_net as fn() -> Net].iter().enumerate() {
            let mut ck = json_route(if (k + j) % 2 == 0 { dist_cfg(mk_net(), "Kilometers", 0.0) } else { base_cfg(mk_net()) });
            ck.astar = k % 2 == 0;
            ck.tree_fmt = None;
            ck.ksp = Some(KspCfg { yens: false, k, sim: None, term: None });
            if (k + j) % 2 == 1 {
                let n = ck.net.clone();
                ck.turn = Some(TurnCfg { headings: geo_headings(&n), table: full_turn_table_nz(2.0), unit: "Seconds".into() });
            }
            out.push((format!("ksp_single_via_k{}", k), ck.clone(), plain_q(0, Some(3))));
            // edge-oriented: from the first edge leaving vertex 0 to an edge that leaves vertex 3
            let o = 0usize;
            if let Some(d) = (0..ck.net.edges.len()).find(|e| ck.net.edges[*e].0 == 3 && ck.net.edges[*e].1 != ck.net.edges[o].0 && ck.net.edges[o].1 != 3) {
                let mut ce = ck.clone();
                ce.edge_oriented = true;
                out.push((format!("ksp_single_via_k{}_edge_oriented", k), ce, plain_q(o, Some(d))));
            }
        }
    }
    // collinear edges (exactly equal headings) with a non-zero "no_turn" delay: a junction costs time straight through
    for (i, u) in ["Seconds", "Minutes"].iter().enumerate() {
        let straight = net_of((0..5).map(cell).collect(), &[(0, 1), (1, 2), (2, 3), (3, 4), (4, 3), (3, 2)], |i| 1.05 + 0.1 * i as f64, |i| SPEEDS[i], |_| 0);
        let mut cs = json_route(base_cfg(straight.clone()));
        cs.astar = i == 0;
        cs.weights = vec![("distance".into(), 1.0), ("time".into(), 1.0)];
        cs.turn = Some(TurnCfg { headings: geo_headings(&straight), table: full_turn_table_nz(3.0), unit: u.to_string() });
        out.push(("straight_through".into(), cs, plain_q(0, Some(4))));
    }
    // Combined vehicle rates, written in the configuration as ["combined", rate, rate, ..]: applied in the listed order
    for (i, chain) in [
        vec![VRate::Offset(25.0), VRate::Factor(0.01)],
        vec![VRate::Factor(0.01), VRate::Offset(25.0)],
        vec![VRate::Offset(4.0), VRate::Combined(vec![VRate::Factor(0.5), VRate::Offset(3.0), VRate::Factor(2.0)])],
    ]
    .into_iter()
    .enumerate()
    {
        let mut cc = c.clone();
        cc.astar = i % 2 == 0;
        cc.weights = vec![("distance".into(), 2.0), ("time".into(), 1.0)];
        cc.vrates = vec![("distance".into(), VRate::Combined(chain.clone())), ("time".into(), VRate::Factor(0.5))];
        out.push(("combined_vehicle_rate".into(), cc.clone(), plain_q(0, Some(4))));
        // the same chain brought by the query
        let mut q = plain_q(0, Some(4));
        q.vrates = Some(vec![("distance".into(), VRate::Raw), ("time".into(), VRate::Combined(chain))]);
        out.push(("combined_vehicle_rate_in_query".into(), c.clone(), q));
    }
    // sequences on ONE application instance: the first query overrides a part of the cost model, the later ones are
    // plain (or override something else): every answer under the rates in force for ITS OWN query
    {
        let mut cs = c.clone();
        cs.weights = vec![("distance".into(), 0.25), ("time".into(), 1.0)];
        let mut q1 = plain_q(0, Some(4));
        q1.weights = Some(vec![("distance".into(), 1.0), ("time".into(), 0.0)]);
        let mut q3 = plain_q(4, Some(0));
        q3.vrates = Some(vec![("distance".into(), VRate::Factor(0.125)), ("time".into(), VRate::Offset(2.0))]);
        let mut q5 = plain_q(0, Some(3));
        q5.agg = Some("mul".into());
        let steps = vec![q1.clone(), plain_q(0, Some(4)), q3, plain_q(1, Some(4)), q5, plain_q(0, Some(4))];
        for k in 0..steps.len() {
            let mut q = steps[k].clone();
            q.prefix = steps[..k].to_vec();
            let mut ck = cs.clone();
            ck.astar = false; // a product of costs has no consistent estimate: Dijkstra for the whole sequence
            out.push((format!("sequence_step{}", k + 1), ck, q));
        }
        // an override AFTER a plain query, and plain queries only
        let mut q = q1.clone();
        q.prefix = vec![plain_q(0, Some(4))];
        out.push(("sequence_override_second".into(), cs.clone(), q));
        let mut q = plain_q(4, Some(0));
        q.prefix = vec![plain_q(0, Some(4)), plain_q(1, Some(3))];
        out.push(("sequence_plain_only".into(), cs, q));
    }
    let mut ce = json_route(base_cfg(net.clone()));
    ce.edge_oriented = true;
    ce.tree_fmt = None;
    out.push(("edge_oriented".into(), ce.clone(), plain_q(0, Some(3))));
    out.push(("edge_oriented_adjacent".into(), ce.clone(), plain_q(0, Some(1))));
    out.push(("edge_oriented_same_edge".into(), ce, plain_q(2, Some(2))));
    out
}

// ------------------------------------------------------------------------------------------ random cases

fn gen_turn(r: &mut Rng, net: &Net, sums: bool) -> TurnCfg {
    if sums {
        // app_sums: every class (also no_turn, 4 times in 5) has its own non-zero delay; headings from the geometry
        // (collinear edges share a heading), or from a small pool around one direction: differences of exactly 0, +-1,
        // and the class boundaries 19/20, 44/45, 134/135, 159/160, 179/180
        let headings: Vec<(i64, Option<i64>)> = match r.below(3) {
            0 => geo_headings(net),
            1 => {
                let b = r.below(360) as i64;
                let pool: Vec<i64> = [0i64, 0, 0, 1, -1, 19, 20, -19, -20, 44, 45, -45, 134, 135, -135, 159, 160, -160, 179, 180, -179].iter().map(|d| (b + d).rem_euclid(360)).collect();
                net.edges.iter().map(|_| { let a = *r.pick(&pool); (a, match r.below(4) { 0 => Some(*r.pick(&pool)), 1 => Some(a), _ => None }) }).collect()
            }
            _ => net.edges.iter().map(|_| (r.below(360) as i64, if r.chance(1, 3) { Some(r.below(360) as i64) } else { None })).collect(),
        };
        let base = *r.pick(&[0.5, 1.0, 2.5]);
        let mut order: Vec<usize> = (0..TURNS.len()).collect();
        r.shuffle(&mut order);
        let no_turn_free = r.chance(1, 5);
        let table = TURNS.iter().enumerate().map(|(i, t)| (t.to_string(), if i == 0 && no_turn_free { 0.0 } else { base * (order[i] as f64 + 1.0) })).collect();
        return TurnCfg { headings, table, unit: r.pick(&TIME).to_string() };
    }
    let headings = if r.chance(1, 2) {
        geo_headings(net)
    } else {
        net.edges.iter().map(|_| (r.below(360) as i64, if r.chance(1, 3) { Some(r.below(360) as i64) } else { None })).collect()
    };
    let table = TURNS.iter().enumerate().map(|(i, t)| (t.to_string(), if i == 0 && r.chance(3, 4) { 0.0 } else { *r.pick(&[0.0, 0.5, 1.0, 2.5, 5.0, 10.0, 30.0]) })).collect();
    TurnCfg { headings, table, unit: r.pick(&TIME).to_string() }
}
/// hop distance from `from` over permitted edges (None = unreachable)
fn depths(c: &Cfg, forbid: &[usize], from: usize) -> Vec<Option<usize>> {
    let n = c.net.coords.len();
    let mut dep: Vec<Option<usize>> = vec![None; n];
    if from >= n {
        return dep;
    }
    dep[from] = Some(0);
    let mut queue = std::collections::VecDeque::from([from]);
    while let Some(v) = queue.pop_front() {
        for (i, (s, d, _, _, _)) in c.net.edges.iter().enumerate() {
            if *s == v && *d < n && dep[*d].is_none() && !forbid.contains(&i) {
                dep[*d] = Some(dep[v].unwrap() + 1);
                queue.push_back(*d);
            }
        }
    }
    dep
}
/// a destination for origin `o`: with probability reach_pct % one that can be reached (half of the time one of the
/// farthest in hops), otherwise any other id
fn pick_target(r: &mut Rng, c: &Cfg, forbid: &[usize], o: usize, reach_pct: u64) -> usize {
    let dom = if c.edge_oriented { c.net.edges.len() } else { c.net.coords.len() };
    let start = if c.edge_oriented { c.net.edges[o].1 } else { o };
    let dep = depths(c, forbid, start);
    let mut cands: Vec<(usize, usize)> = if c.edge_oriented {
        (0..dom).filter(|e| *e != o).filter_map(|e| dep[c.net.edges[e].0].map(|k| (e, k))).collect()
    } else {
        (0..dom).filter(|v| *v != o).filter_map(|v| dep[v].map(|k| (v, k))).collect()
    };
    if !cands.is_empty() && r.below(100) < reach_pct {
        if r.chance(1, 2) {
            let far = cands.iter().map(|x| x.1).max().unwrap();
            cands.retain(|x| x.1 + 1 >= far);
        }
        r.pick(&cands).0
    } else {
        let t = r.below(dom as u64) as usize;
        if t == o { (t + 1) % dom } else { t }
    }
}
/// an origin from which something can be reached, when there is one (a few tries)
fn pick_origin(r: &mut Rng, c: &Cfg, forbid: &[usize]) -> usize {
    let dom = if c.edge_oriented { c.net.edges.len() } else { c.net.coords.len() };
    let mut best = (r.below(dom as u64) as usize, 0usize);
    for _ in 0..8 {
        let o = r.below(dom as u64) as usize;
        let start = if c.edge_oriented { c.net.edges[o].1 } else { o };
        let k = depths(c, forbid, start).iter().filter(|x| x.is_some()).count();
        if k > best.1 {
            best = (o, k);
        }
    }
    best.0
}
fn gen_case(r: &mut Rng, stream: &str) -> (String, Cfg, Qry, Vec<&'static str>) {
    let sums = stream == "app_sums";
    let consistent = sums || r.chance(1, 2);
    let (net, flags) = gen_net(r, consistent);
    let mut c = base_cfg(net);
    c.astar = r.chance(1, 2);
    if c.astar && r.chance(1, 4) {
        c.cfg_wf = Some(if sums { *r.pick(&[0.0, 0.5, 1.0]) } else { *r.pick(&[0.0, 0.5, 1.0, 3.0]) });
    }
    if r.chance(2, 5) {
        let u = *r.pick(&DIST);
        c = Cfg { astar: c.astar, cfg_wf: c.cfg_wf, ..dist_cfg(c.net.clone(), u, *r.pick(&[0.0, 0.0, 12.5, 1000.0])) };
        if r.chance(1, 4) {
            let init = if let Feat::Distance(_, i) = c.state[0].1 { i } else { 0.0 };
            c.state = vec![("distance".into(), Feat::Distance(r.pick(&DIST).to_string(), init))];
        }
        if r.chance(1, 5) {
            c.vrates = vec![("distance".into(), VRate::Factor(*r.pick(&[0.5, 2.0, 0.125])))];
        }
    } else {
        c.tm = Tm::Speed {
            su: r.pick(&SPEED).to_string(),
            du: if r.chance(1, 2) { Some(r.pick(&DIST).to_string()) } else { None },
            tu: if r.chance(1, 2) { Some(r.pick(&TIME).to_string()) } else { None },
        };
        c.weights = match r.below(6) {
            0 => vec![("time".into(), 1.0)],
            1 => vec![("distance".into(), 1.0)],
            2 => vec![("distance".into(), 1.0), ("time".into(), 1.0)],
            3 => vec![("distance".into(), 0.5), ("time".into(), 2.0)],
            4 => vec![("distance".into(), 2.0), ("time".into(), 0.25)],
            _ => vec![("distance".into(), 0.0), ("time".into(), 1.0)],
        };
        if r.chance(1, 5) {
            c.vrates = vec![("distance".into(), VRate::Factor(*r.pick(&[0.5, 2.0]))), ("time".into(), VRate::Factor(*r.pick(&[0.25, 3.0])))];
        }
        if sums && r.chance(1, 5) {
            // a chain applied in order: offset BEFORE factor, factor before offset, nested
            let chain = match r.below(3) {
                0 => vec![VRate::Offset(*r.pick(&[25.0, 4.0, 100.0])), VRate::Factor(*r.pick(&[0.01, 0.5, 2.0]))],
                1 => vec![VRate::Factor(*r.pick(&[0.5, 2.0])), VRate::Offset(*r.pick(&[3.0, 10.0]))],
                _ => vec![VRate::Offset(*r.pick(&[2.0, 8.0])), VRate::Combined(vec![VRate::Factor(0.5), VRate::Offset(1.5), VRate::Factor(*r.pick(&[0.25, 4.0]))])],
            };
            let k = r.below(2) as usize;
            c.vrates = vec![("distance".into(), if k == 0 { VRate::Combined(chain.clone()) } else { VRate::Raw }), ("time".into(), if k == 1 { VRate::Combined(chain) } else { VRate::Factor(0.5) })];
        }
        if r.chance(1, 5) {
            c.state = vec![("soc".into(), Feat::Custom("soc".into(), 0.5))];
        }
        if r.chance(1, 2) {
            c.turn = Some(gen_turn(r, &c.net, sums));
        }
    }
    c.summary = r.chance(3, 4);
    let mut q = plain_q(0, None);
    if sums {
        c.route_fmt = "json".into();
        c.tree_fmt = if r.chance(1, 3) { Some("json".into()) } else { None };
        c.edge_oriented = r.chance(1, 4) && c.net.edges.len() >= 2;
        c.input = if r.chance(1, 4) { if c.edge_oriented { Inp::Edge } else { Inp::Vertex } } else { Inp::None };
        if r.chance(1, 3) {
            // single-via k-shortest paths, k in 2..4: a response with several routes
            c.tree_fmt = None;
            c.ksp = Some(KspCfg { yens: false, k: 2 + r.below(3) as usize, sim: None, term: None });
        }
    } else {
        c.route_fmt = if r.chance(3, 10) { "json".into() } else { "edge_id".into() };
        c.tree_fmt = match r.below(4) {
            0 => None,
            1 => Some("edge_id".into()),
            _ => Some("json".into()),
        };
        c.edge_oriented = r.chance(2, 5) && !c.net.edges.is_empty();
        c.road_class = r.chance(if stream == "app_reach" { 3 } else { 1 }, 5);
        if r.chance(1, 4) {
            c.input = if c.edge_oriented { Inp::Edge } else { Inp::Vertex };
        }
        if c.road_class && r.chance(4, 5) {
            let k = r.below(5);
            let mut cl: Vec<u8> = (0..4u8).filter(|_| r.below(4) < k).collect();
            if r.chance(1, 6) {
                cl.push(cl.first().copied().unwrap_or(2));
            }
            q.classes = Some(cl);
        }
    }
    let dom = if c.edge_oriented { c.net.edges.len() } else { c.net.coords.len() };
    let forbid = forbidden(&c, &q);
    q.o = if sums || r.chance(3, 4) { pick_origin(r, &c, &forbid) } else { r.below(dom as u64) as usize };
    let with_dest = sums || !r.chance(if stream == "app_reach" { 1 } else { 1 }, if stream == "app_reach" { 3 } else { 6 });
    if with_dest {
        q.d = Some(pick_target(r, &c, &forbid, q.o, if sums { 96 } else { 75 }));
    } else if stream == "app_reach" {
        // the labels of a destination-less tree are least distances: distance model in meters, distance the only cost
        let init = *r.pick(&[0.0, 1000.0]);
        let keep = c.clone();
        c = Cfg { astar: keep.astar, cfg_wf: keep.cfg_wf, road_class: keep.road_class, edge_oriented: keep.edge_oriented, input: keep.input, route_fmt: keep.route_fmt, summary: keep.summary, ..dist_cfg(keep.net, "Meters", init) };
        c.tree_fmt = Some("json".into());
    }
    // query-level overrides
    if r.chance(1, 5) {
        match &c.tm {
            // a query can only override features the traversal / access MODELS declare; the distance model declares
            // none (its feature comes from [state]), such a query is answered with an error (kept rare: 1 in 4)
            Tm::Dist(_) => {
                if r.chance(1, 4) && stream == "app_walk" {
                    q.user = vec![("distance".into(), Feat::Distance(r.pick(&DIST).to_string(), *r.pick(&[0.0, 3.0])))]
                }
            }
            Tm::Speed { .. } => {
                if r.chance(2, 3) {
                    q.user.push(("distance".into(), Feat::Distance(r.pick(&DIST).to_string(), *r.pick(&[0.0, 7.5]))));
                }
                if q.user.is_empty() || r.chance(1, 2) {
                    q.user.push(("time".into(), Feat::Time(r.pick(&TIME).to_string(), *r.pick(&[0.0, 0.25]))));
                }
            }
        }
        if !with_dest && stream == "app_reach" {
            q.user.clear();
        }
    }
    if r.chance(1, 6) && matches!(c.tm, Tm::Speed { .. }) {
        q.weights = Some(match r.below(3) {
            0 => vec![("distance".into(), 1.0)],
            1 => vec![("time".into(), 1.0), ("distance".into(), 0.5)],
            _ => vec![("time".into(), 2.0)],
        });
    }
    if r.chance(1, 10) {
        q.wf = Some(if sums { *r.pick(&[0.0, 0.5, 1.0]) } else { *r.pick(&[0.0, 0.5, 1.0, 3.0]) });
    }
    if stream == "app_reach" && r.chance(1, 4) {
        // a sequence: the same application first answers a query towards a vertex / edge it cannot reach (when there is
        // one; any other destination otherwise), then this query
        let dom = if c.edge_oriented { c.net.edges.len() } else { c.net.coords.len() };
        let start = if c.edge_oriented { c.net.edges[q.o].1 } else { q.o };
        let dep = depths(&c, &forbid, start);
        let unreachable: Vec<usize> = (0..dom).filter(|x| *x != q.o && dep[if c.edge_oriented { c.net.edges[*x].0 } else { *x }].is_none()).collect();
        let mut pq = q.clone();
        pq.prefix = vec![];
        pq.d = Some(if unreachable.is_empty() { pick_target(r, &c, &forbid, q.o, 0) } else { *r.pick(&unreachable) });
        q.prefix = if r.chance(1, 3) { vec![pq.clone(), pq] } else { vec![pq] };
    }
    (if consistent { "random_consistent".to_string() } else { "random_any_length".to_string() }, c, q, flags)
}


// ================================================================================================ SECOND GROUP
// streams app_frontier (C04), app_limits (C10), app_ksp (C13): the same application path, with the [frontier] section
// built from raw tables the harness writes, a swept [termination] section, and the k-shortest-paths [algorithm] section.

fn bits(x: f64) -> String {
    format!("{:016x}", x.to_bits())
}
fn unbits(s: &str) -> f64 {
    f64::from_bits(u64::from_str_radix(s, 16).unwrap())
}
/// JSON with floats as bit patterns ({"$f": "hex"}), so that a replay file reproduces them exactly
fn enc(v: &Value) -> Value {
    match v {
        Value::Number(n) if !(n.is_i64() || n.is_u64()) => json!({ "$f": bits(n.as_f64().unwrap()) }),
        Value::Array(a) => Value::Array(a.iter().map(enc).collect()),
        Value::Object(m) => Value::Object(m.iter().map(|(k, v)| (k.clone(), enc(v))).collect()),
        _ => v.clone(),
    }
}
fn dec(v: &Value) -> Value {
    match v {
        Value::Object(m) if m.len() == 1 && m.contains_key("$f") => json!(unbits(m["$f"].as_str().unwrap())),
        Value::Array(a) => Value::Array(a.iter().map(dec).collect()),
        Value::Object(m) => Value::Object(m.iter().map(|(k, v)| (k.clone(), dec(v))).collect()),
        _ => v.clone(),
    }
}

// ------------------------------------------------------------------------------------------ frontier configuration
// (private copy of the configuration type of harness/src/bin/c04.rs: same JSON, same Gallina term)

#[derive(Clone, Debug)]
enum FCfg {
    None,
    RoadClass { lookup: Vec<u8>, mapping: Vec<(String, u8)> },
    /// rows of the CSV: edge_id, restriction_name, restriction_value, restriction_unit
    Vehicle { rows: Vec<(usize, String, f64, String)> },
    Turn { pairs: Vec<(usize, usize)> },
    Combined(Vec<FCfg>),
}
fn fcfg_to_json(c: &FCfg) -> Value {
    match c {
        FCfg::None => json!({"t": "none"}),
        FCfg::RoadClass { lookup, mapping } => json!({"t": "rc", "lookup": lookup, "mapping": mapping}),
        FCfg::Vehicle { rows } => json!({"t": "veh", "rows": rows.iter().map(|(e, n, v, u)| json!([e, n, bits(*v), u, v])).collect::<Vec<_>>()}),
        FCfg::Turn { pairs } => json!({"t": "turn", "pairs": pairs}),
        FCfg::Combined(inner) => json!({"t": "comb", "inner": inner.iter().map(fcfg_to_json).collect::<Vec<_>>()}),
    }
}
fn fcfg_from_json(v: &Value) -> FCfg {
    match v["t"].as_str().unwrap() {
        "none" => FCfg::None,
        "rc" => FCfg::RoadClass { lookup: serde_json::from_value(v["lookup"].clone()).unwrap(), mapping: serde_json::from_value(v["mapping"].clone()).unwrap() },
        "veh" => FCfg::Vehicle {
            rows: v["rows"].as_array().unwrap().iter().map(|r| (r[0].as_u64().unwrap() as usize, r[1].as_str().unwrap().to_string(), unbits(r[2].as_str().unwrap()), r[3].as_str().unwrap().to_string())).collect(),
        },
        "turn" => FCfg::Turn { pairs: serde_json::from_value(v["pairs"].clone()).unwrap() },
        "comb" => FCfg::Combined(v["inner"].as_array().unwrap().iter().map(fcfg_from_json).collect()),
        t => panic!("unknown frontier tag {}", t),
    }
}
fn coq_fcfg(c: &FCfg) -> String {
    match c {
        FCfg::None => "CNoRestriction".into(),
        FCfg::RoadClass { lookup, mapping } => format!("(CRoadClass {} {})", coq_list(lookup, |x| x.to_string()), coq_list(mapping, |(k, v)| format!("({}, {})", coq_string(k), v))),
        FCfg::Vehicle { rows } => format!("(CVehicle FN {})", coq_list(rows, |(e, n, v, u)| format!("({}, {}, {}, {})", e, coq_string(n), coq_f64(*v), coq_string(u)))),
        FCfg::Turn { pairs } => format!("(CTurn {})", coq_list(pairs, |(a, b)| format!("({}, {})", a, b))),
        FCfg::Combined(inner) => format!("(CCombined FN {})", coq_list(inner, coq_fcfg)),
    }
}
fn fcfg_kind(c: &FCfg) -> &'static str {
    match c {
        FCfg::None => "none",
        FCfg::RoadClass { .. } => "road_class",
        FCfg::Vehicle { .. } => "vehicle",
        FCfg::Turn { .. } => "turn",
        FCfg::Combined(_) => "combined",
    }
}
fn fcfg_has(c: &FCfg, k: &str) -> bool {
    match c {
        FCfg::Combined(inner) => k == "combined" || inner.iter().any(|i| fcfg_has(i, k)),
        _ => fcfg_kind(c) == k,
    }
}
struct FFiles {
    dir: PathBuf,
    n: usize,
}
impl FFiles {
    fn path(&mut self, ext: &str) -> PathBuf {
        self.n += 1;
        self.dir.join(format!("frontier{}.{}", self.n, ext))
    }
}
/// A CSV table the application reads BY HEADER NAME (restricted-turn file, vehicle restriction file; the road class file
/// is headerless).  `layout` picks column order and extra columns: a quarter canonical, otherwise the named columns are
/// permuted and unrelated columns are added before / between / after them (same scheme as harness/src/bin/c04.rs; seeded/C04-11).
fn csv_with_layout(cols: &[&str], rows: &[Vec<String>], layout: u64) -> String {
    let n = cols.len();
    let (perm_ix, extras) = if layout % 4 == 0 { (0u64, 0u64) } else { ((layout / 4) % (1..=n as u64).product::<u64>(), (layout / 4 / 24) % 5) };
    let mut pool: Vec<usize> = (0..n).collect();
    let mut order: Vec<usize> = vec![];
    let mut k = perm_ix;
    for i in (1..=n).rev() {
        let f: u64 = (1..i as u64).product();
        let j = (k / f) as usize;
        k %= f;
        order.push(pool.remove(j));
    }
    let mut plan: Vec<Result<usize, usize>> = vec![];
    if extras == 1 || extras == 4 {
        plan.push(Err(0));
    }
    for (i, c) in order.iter().enumerate() {
        plan.push(Ok(*c));
        if i == 0 && (extras == 2 || extras == 4) {
            plan.push(Err(1));
        }
    }
    if extras == 3 || extras == 4 {
        plan.push(Err(2));
    }
    let extra_names = ["row_id", "way_id", "source"];
    let mut out = plan.iter().map(|c| match c { Ok(i) => cols[*i].to_string(), Err(k) => extra_names[*k].to_string() }).collect::<Vec<_>>().join(",");
    out.push('\n');
    for (ri, row) in rows.iter().enumerate() {
        let line = plan
            .iter()
            .map(|c| match c {
                Ok(i) => row[*i].clone(),
                Err(0) => ri.to_string(),
                Err(1) => ((ri * 7 + 3) % 11).to_string(),
                Err(_) => "survey".to_string(),
            })
            .collect::<Vec<_>>()
            .join(",");
        out.push_str(&line);
        out.push('\n');
    }
    out
}
/// the file layout of a table is a function of the table's content (replays reproduce it)
fn flayout(c: &FCfg) -> u64 {
    // SplitMix64 finaliser over FNV (whose low bits depend on the low bits of the input bytes only)
    let mix64 = |mut z: u64| {
        z = (z ^ (z >> 30)).wrapping_mul(0xBF58_476D_1CE4_E5B9);
        z = (z ^ (z >> 27)).wrapping_mul(0x94D0_49BB_1331_11EB);
        z ^ (z >> 31)
    };
    match c {
        FCfg::Turn { pairs } => mix64(fnv(&format!("turn{:?}", pairs))),
        FCfg::Vehicle { rows } => mix64(fnv(&rows.iter().map(|(e, n, v, u)| format!("{}|{}|{}|{};", e, n, bits(*v), u)).collect::<String>())),
        _ => 0,
    }
}
fn flayout_kind(c: &FCfg) -> String {
    let n = match c { FCfg::Turn { .. } => 2u64, FCfg::Vehicle { .. } => 24, _ => return "n/a".into() };
    let l = flayout(c);
    if l % 4 == 0 { "canonical".into() } else { format!("perm{}_extras{}", if (l / 4) % n == 0 { "Id" } else { "X" }, (l / 4 / 24) % 5) }
}
/// the same turn table with a file layout of the wanted kind (repeats the first pair until the content hash gives it)
fn turn_with_layout(pairs: &[(usize, usize)], kind: &str) -> FCfg {
    let mut p = pairs.to_vec();
    for _ in 0..400 {
        let c = FCfg::Turn { pairs: p.clone() };
        if flayout_kind(&c) == kind {
            return c;
        }
        p.push(pairs[0]);
    }
    panic!("no turn table with layout {}", kind)
}
fn count_flayouts(st: &mut Stream, c: &FCfg) {
    match c {
        FCfg::Combined(inner) => inner.iter().for_each(|i| count_flayouts(st, i)),
        FCfg::Turn { .. } => st.count(&format!("turn_file:{}", flayout_kind(c))),
        FCfg::Vehicle { .. } => st.count(&format!("vehicle_file:{}", flayout_kind(c))),
        _ => {}
    }
}

/// the [frontier] section the application reads, with the raw tables written to files next to the network
fn fcfg_config_json(c: &FCfg, files: &mut FFiles) -> Value {
    match c {
        FCfg::None => json!({"type": "no_restriction"}),
        FCfg::RoadClass { lookup, mapping } => {
            let p = files.path("txt");
            std::fs::write(&p, lookup.iter().map(|x| format!("{}\n", x)).collect::<String>()).unwrap();
            let mut j = json!({"type": "road_class", "road_class_input_file": p.to_str().unwrap()});
            if !mapping.is_empty() {
                let m: Map<String, Value> = mapping.iter().map(|(k, v)| (k.clone(), json!(v))).collect();
                j["road_class_parser"] = json!({ "mapping": m });
            }
            j
        }
        FCfg::Vehicle { rows } => {
            let p = files.path("csv");
            let table: Vec<Vec<String>> = rows.iter().map(|(e, n, v, u)| vec![e.to_string(), n.clone(), format!("{:?}", v), u.clone()]).collect();
            let body = csv_with_layout(&["edge_id", "restriction_name", "restriction_value", "restriction_unit"], &table, flayout(c));
            std::fs::write(&p, body).unwrap();
            json!({"type": "vehicle_restriction", "vehicle_restriction_input_file": p.to_str().unwrap()})
        }
        FCfg::Turn { pairs } => {
            let p = files.path("csv");
            let table: Vec<Vec<String>> = pairs.iter().map(|(a, b)| vec![a.to_string(), b.to_string()]).collect();
            let body = csv_with_layout(&["prev_edge_id", "next_edge_id"], &table, flayout(c));
            std::fs::write(&p, body).unwrap();
            json!({"type": "turn_restriction", "turn_restriction_input_file": p.to_str().unwrap()})
        }
        FCfg::Combined(inner) => json!({"type": "combined", "models": inner.iter().map(|c| fcfg_config_json(c, files)).collect::<Vec<_>>()}),
    }
}

const DIST_UNITS: [&str; 5] = ["meters", "kilometers", "miles", "inches", "feet"];
const DIST_M: [f64; 5] = [1.0, 1000.0, 1609.344, 0.0254, 0.3048];
const WEIGHT_UNITS: [&str; 3] = ["pounds", "tons", "kg"];
const WEIGHT_KG: [f64; 3] = [0.45359237, 907.18474, 1.0];
/// (restriction name, vehicle_parameters field, is weight, per axle)
const KINDS: [(&str, &str, bool, bool); 6] = [
    ("maximum_total_weight", "total_weight", true, false),
    ("maximum_weight_per_axle", "total_weight", true, true),
    ("maximum_length", "total_length", false, false),
    ("maximum_width", "width", false, false),
    ("maximum_height", "height", false, false),
    ("maximum_trailer_length", "trailer_length", false, false),
];
const CLASS_NAMES: [&str; 6] = ["motorway", "trunk", "primary", "secondary", "residential", "track"];
#[derive(Clone, Debug)]
struct Vehicle {
    height: (f64, usize),
    width: (f64, usize),
    total_length: (f64, usize),
    trailer_length: (f64, usize),
    total_weight: (f64, usize),
    axles: u64,
}
impl Vehicle {
    fn query(&self) -> Value {
        json!({
            "height": [self.height.0, DIST_UNITS[self.height.1]],
            "width": [self.width.0, DIST_UNITS[self.width.1]],
            "total_length": [self.total_length.0, DIST_UNITS[self.total_length.1]],
            "trailer_length": [self.trailer_length.0, DIST_UNITS[self.trailer_length.1]],
            "total_weight": [self.total_weight.0, WEIGHT_UNITS[self.total_weight.1]],
            "number_of_axles": self.axles,
        })
    }
    fn field(&self, f: &str) -> (f64, usize) {
        match f {
            "height" => self.height,
            "width" => self.width,
            "total_length" => self.total_length,
            "trailer_length" => self.trailer_length,
            _ => self.total_weight,
        }
    }
    /// the vehicle's quantity limited by kind `k` in unit index `ru` (approximately: only used to place generated limits
    /// clearly below / above the comparison boundary; the judgement is made in Coq from the raw numbers)
    fn converted(&self, k: usize, ru: usize) -> f64 {
        let (_, field, is_weight, per_axle) = KINDS[k];
        let (v, vu) = self.field(field);
        if is_weight {
            let w = v * WEIGHT_KG[vu] / WEIGHT_KG[ru];
            if per_axle { w / self.axles as f64 } else { w }
        } else {
            v * DIST_M[vu] / DIST_M[ru]
        }
    }
}
fn gen_value(r: &mut Rng) -> f64 {
    if r.chance(1, 4) {
        return *r.pick(&[1.0, 2.5, 4.0, 13.5, 80000.0, 36.0, 53.0, 8.5, 0.5, 10.0, 12000.0]);
    }
    let e = r.range(-2, 5);
    10f64.powi(e as i32) * (1.0 + r.unit_f64())
}
fn gen_vehicle(r: &mut Rng) -> Vehicle {
    Vehicle {
        height: (gen_value(r), r.below(5) as usize),
        width: (gen_value(r), r.below(5) as usize),
        total_length: (gen_value(r), r.below(5) as usize),
        trailer_length: (gen_value(r), r.below(5) as usize),
        total_weight: (gen_value(r), r.below(3) as usize),
        axles: 1 + r.below(6),
    }
}
fn truck() -> Vehicle {
    Vehicle { height: (4.0, 0), width: (2.5, 0), total_length: (20.0, 0), trailer_length: (13.5, 0), total_weight: (36.0, 1), axles: 5 }
}
/// restriction rows for `m` edges in mixed units: most limits clearly above the vehicle's quantity, some clearly below
/// (factors 0.7 / 0.999 / 1.001 / 1..2: the specification is undecided only within 1e-9 of a limit)
fn gen_vehicle_rows(r: &mut Rng, veh: &Vehicle, m: usize, nrows: usize) -> Vec<(usize, String, f64, String)> {
    (0..nrows)
        .map(|_| {
            let e = r.below(m as u64) as usize;
            let k = r.below(6) as usize;
            let ru = if KINDS[k].2 { r.below(3) as usize } else { r.below(5) as usize };
            let unit = if KINDS[k].2 { WEIGHT_UNITS[ru] } else { DIST_UNITS[ru] };
            let f = match r.below(7) {
                0 => 0.999,
                1 => 1.001,
                2 | 3 => 0.7,
                _ => 1.0 + r.unit_f64(),
            };
            (e, KINDS[k].0.to_string(), veh.converted(k, ru) * f, unit.to_string())
        })
        .collect()
}
/// a frontier configuration for a network: about a quarter of the edges refused by class / restriction, restricted
/// turns among adjacent pairs (travel order); returns the configuration and the query fields it needs
fn gen_frontier(r: &mut Rng, net: &Net) -> (FCfg, Map<String, Value>) {
    let m = net.edges.len().max(1);
    let veh = gen_vehicle(r);
    let mut query = Map::new();
    let mut leaves: Vec<FCfg> = vec![];
    let pick = r.below(8);
    let (want_rc, want_veh, want_turn) = match pick {
        0 | 1 => (true, false, false),
        2 => (false, true, false),
        3 => (false, false, true),
        4 => (true, true, false),
        5 => (true, false, true),
        6 => (false, true, true),
        _ => (true, true, true),
    };
    if want_rc {
        // half of the tables use class ids from the full u8 range built around ids that differ by multiples of 64
        // (c, c+64, c+128, c+192; 0/64/128/192; 63/127/191/255): a set narrower than 256 values confuses them (seeded/C04-7)
        let universe: Vec<u8> = if r.chance(1, 2) {
            let base = match r.below(4) { 0 => 0u8, 1 => 63, _ => r.below(64) as u8 };
            let other = r.below(64) as u8;
            let mut u = vec![base, base + 64, base + 128, base + 192, other, other.wrapping_add(64 * (1 + r.below(3) as u8))];
            let mut seen = std::collections::BTreeSet::new();
            u.retain(|c| seen.insert(*c));
            u
        } else {
            (0..2 + r.below(4) as u8).collect()
        };
        let class_name = |c: u8| if (c as usize) < CLASS_NAMES.len() { CLASS_NAMES[c as usize].to_string() } else { format!("class_{}", c) };
        let common = universe[0];
        let lookup: Vec<u8> = (0..m).map(|_| if r.chance(2, 3) { common } else { *r.pick(&universe) }).collect();
        let with_mapping = r.chance(1, 2);
        let mapping: Vec<(String, u8)> = if with_mapping { universe.iter().map(|c| (class_name(*c), *c)).collect() } else { vec![] };
        let mut allowed: Vec<u8> = universe.iter().copied().filter(|c| if *c == common { r.chance(9, 10) } else { r.chance(1, 3) }).collect();
        if r.chance(1, 6) {
            if let Some(x) = allowed.first().copied() {
                allowed.push(x);
            }
        }
        if !r.chance(1, 10) {
            if with_mapping && r.chance(1, 2) {
                query.insert("road_classes".into(), json!(allowed.iter().map(|c| class_name(*c)).collect::<Vec<_>>()));
            } else {
                query.insert("road_classes".into(), json!(allowed));
            }
        }
        leaves.push(FCfg::RoadClass { lookup, mapping });
    }
    if want_veh {
        query.insert("vehicle_parameters".into(), veh.query());
        let nrows = 1 + r.below(m as u64) as usize;
        leaves.push(FCfg::Vehicle { rows: gen_vehicle_rows(r, &veh, m, nrows) });
    }
    if want_turn {
        let pct = 5 + r.below(40);
        let mut pairs = vec![];
        for a in 0..net.edges.len() {
            for b in 0..net.edges.len() {
                if net.edges[a].1 == net.edges[b].0 && r.below(100) < pct {
                    pairs.push((a, b));
                }
            }
        }
        pairs.truncate(80);
        leaves.push(FCfg::Turn { pairs });
    }
    if r.chance(1, 8) {
        leaves.push(FCfg::None);
    }
    r.shuffle(&mut leaves);
    let cfg = if leaves.len() == 1 && r.chance(3, 4) { leaves.pop().unwrap() } else { FCfg::Combined(leaves) };
    (cfg, query)
}

// ------------------------------------------------------------------------------------------ k-shortest-paths section

/// thresholds as (binary64 value written to the configuration, the configured decimal as a rational num/den)
const THRESHOLDS: [(f64, u32, u32); 5] = [(0.0, 0, 1), (0.3, 3, 10), (0.6, 3, 5), (0.9, 9, 10), (1.0, 1, 1)];
#[derive(Clone, Debug, PartialEq)]
enum KSim {
    AcceptAll,
    EdgeId(usize),
    Distance(usize),
}
#[derive(Clone, Debug, PartialEq)]
enum KTerm {
    Exact,
    MaxIteration(u64),
    Factor(u64),
}
#[derive(Clone, Debug)]
struct KspCfg {
    yens: bool,
    k: usize,
    /// None = the key is left out of the configuration (the default applies)
    sim: Option<KSim>,
    term: Option<KTerm>,
}
fn ksp_to_json(k: &KspCfg) -> Value {
    json!({"yens": k.yens, "k": k.k,
           "sim": match &k.sim { None => Value::Null, Some(KSim::AcceptAll) => json!("accept_all"), Some(KSim::EdgeId(i)) => json!({"edge_id": i, "threshold": THRESHOLDS[*i].0}), Some(KSim::Distance(i)) => json!({"distance": i, "threshold": THRESHOLDS[*i].0}) },
           "term": match &k.term { None => Value::Null, Some(KTerm::Exact) => json!("exact"), Some(KTerm::MaxIteration(m)) => json!({"max": m}), Some(KTerm::Factor(f)) => json!({"factor": f}) }})
}
fn ksp_from_json(v: &Value) -> KspCfg {
    KspCfg {
        yens: v["yens"].as_bool().unwrap_or(false),
        k: v["k"].as_u64().unwrap() as usize,
        sim: if v["sim"].is_null() {
            None
        } else if v["sim"].is_string() {
            Some(KSim::AcceptAll)
        } else if let Some(i) = v["sim"].get("edge_id") {
            Some(KSim::EdgeId(i.as_u64().unwrap() as usize))
        } else {
            Some(KSim::Distance(v["sim"]["distance"].as_u64().unwrap() as usize))
        },
        term: if v["term"].is_null() {
            None
        } else if v["term"].is_string() {
            Some(KTerm::Exact)
        } else if let Some(m) = v["term"].get("max") {
            Some(KTerm::MaxIteration(m.as_u64().unwrap()))
        } else {
            Some(KTerm::Factor(v["term"]["factor"].as_u64().unwrap()))
        },
    }
}
/// the [algorithm] section; `with_sim` = false leaves the similarity function out (the default AcceptAll applies)
fn ksp_algorithm_json(k: &KspCfg, underlying: Value, with_sim: bool) -> Value {
    let mut m = Map::new();
    m.insert("type".into(), json!(if k.yens { "yens" } else { "ksp_single_via" }));
    m.insert("k".into(), json!(k.k));
    m.insert("underlying".into(), underlying);
    if let (true, Some(s)) = (with_sim, &k.sim) {
        m.insert("similarity".into(), match s {
            KSim::AcceptAll => json!({"type": "accept_all"}),
            KSim::EdgeId(i) => json!({"type": "edge_id_cosine_similarity", "threshold": THRESHOLDS[*i].0}),
            KSim::Distance(i) => json!({"type": "distance_weighted_cosine_similarity", "threshold": THRESHOLDS[*i].0}),
        });
    }
    if let Some(t) = &k.term {
        m.insert("termination".into(), match t {
            KTerm::Exact => json!({"type": "exact"}),
            KTerm::MaxIteration(x) => json!({"type": "max_iteration", "max": x}),
            KTerm::Factor(x) => json!({"type": "factor", "factor": x}),
        });
    }
    Value::Object(m)
}

// ------------------------------------------------------------------------------------------ responses with several routes

struct RouteOut {
    path: Vec<usize>,
    recs: Vec<EdgeTraversal>,
    summary: Vec<(String, f64)>,
    cost: Vec<(String, f64)>,
    echo: String,
}
/// `route` of a successful response: null (no route), one object, or an array of objects
fn parse_routes(v: &Value, malformed: &mut Vec<String>) -> Vec<RouteOut> {
    let one = |route: &Value, malformed: &mut Vec<String>| -> RouteOut {
        let mut ro = RouteOut { path: vec![], recs: vec![], summary: kv_f64(route.get("traversal_summary").unwrap_or(&Value::Null)), cost: kv_f64(route.get("cost").unwrap_or(&Value::Null)), echo: echo_of(route.get("cost_model").unwrap_or(&Value::Null)) };
        match route.get("path").and_then(|p| p.as_array()) {
            None => malformed.push("route without path".into()),
            Some(p) => {
                for x in p {
                    if let Some(e) = x.as_u64() {
                        ro.path.push(e as usize);
                    } else if let Ok(et) = serde_json::from_value::<EdgeTraversal>(x.clone()) {
                        ro.path.push(et.edge_id.0);
                        ro.recs.push(et);
                    } else {
                        malformed.push("path element".into());
                    }
                }
            }
        }
        ro
    };
    match v.get("route") {
        None | Some(Value::Null) => vec![],
        Some(r @ Value::Object(_)) => vec![one(r, malformed)],
        Some(Value::Array(a)) => {
            if a.len() < 2 {
                malformed.push(format!("route array of {} element(s)", a.len()));
            }
            a.iter()
                .map(|r| {
                    if !r.is_object() {
                        malformed.push("route array element".into());
                    }
                    one(r, malformed)
                })
                .collect()
        }
        Some(_) => {
            malformed.push("route is neither object, array nor null".into());
            vec![]
        }
    }
}

fn desc2(cx: &Ctx, id: usize, fam: &str, c: &Cfg, q: &Qry, short: &str) -> Value {
    json!({"id": id, "error_text": cx.last_err.chars().take(300).collect::<String>(), "family": fam, "stream": cx.stream, "cfg": cfg_json(c), "qry": qry_json(q),
           "query": {"orient": if c.edge_oriented { "edge" } else { "vertex" }, "dir": "forward", "json": query_value(c, q)},
           "impl_short": short.chars().take(240).collect::<String>()})
}
fn build_failed2(cx: &mut Ctx, fam: &str, c: &Cfg, q: &Qry, e: &str, tags: &[&str]) {
    let id = cx.st.next_id();
    cx.st.count("BUILD-FAILED");
    let d = desc2(cx, id, fam, c, q, e);
    let terms = tags.iter().map(|t| format!("E2E.line_echo \"{}\" {}%Z \"the generated configuration builds\"", t, id)).collect();
    cx.st.case(terms, vec![format!("I {} BUILD-FAILED {}", id, e.replace('\n', " "))], d);
}

// ------------------------------------------------------------------------------------------ app_frontier (C04)

const FHEADER: &str = "From Coq Require Import ZArith QArith List String Floats.\nFrom RC Require Import Base.Show Base.Num Base.Res Base.Json Model.Units Model.Frontier Model.Search Model.SearchRun Model.E2ERun.\nImport ListNotations Frontier.\nOpen Scope nat_scope.";

/// what the application's own frontier model (built by its service from this query) says about every edge without a
/// previous edge: number of refused edges and the list of them (histogram, generator guidance; never part of a verdict)
fn refused_by_app(app: &Arc<CompassApp>, c: &Cfg, query: &Value) -> Option<Vec<usize>> {
    let app2 = app.clone();
    let q2 = query.clone();
    let m = c.net.edges.len();
    catch(AssertUnwindSafe(move || {
        let si = app2.search_app.build_search_instance(&q2).ok()?;
        let st = si.state_model.initial_state().ok()?;
        let mut out = vec![];
        for e in 0..m {
            let edge = si.directed_graph.get_edge(&EdgeId(e)).ok()?;
            if let Ok(false) = si.frontier_model.valid_frontier(edge, &st, None, &si.state_model) {
                out.push(e);
            }
        }
        Some(out)
    }))
    .ok()
    .flatten()
}

fn add_frontier(cx: &mut Ctx, fam: &str, c: &Cfg, q: &Qry) {
    let id = cx.st.next_id();
    let app = match build(c, &cx.work.join(format!("c{}", id))) {
        Ok(a) => a,
        Err(e) => return build_failed2(cx, fam, c, q, &e, &["S", "M"]),
    };
    // a sequence: the queries this application instance answered before (their answers are judged by the cases that have
    // them as their last query)
    for pq in &q.prefix {
        let _ = run_query(&app, &query_value(c, pq));
    }
    if !q.prefix.is_empty() {
        cx.st.count(&format!("sequence_position:{}", q.prefix.len() + 1));
    }
    let query = query_value(c, q);
    let r = run_query(&app, &query);
    let s = semantics(c, q, &r);
    cx.last_err = r.err.clone();
    let core = core_compare(&app, c, &s, &r, &query);
    let fc = c.frontier.clone().unwrap_or(FCfg::None);
    let mut tree: Vec<(Option<usize>, usize)> = r.tree.iter().map(|(p, e, _)| (*p, *e)).collect();
    tree.sort_by_key(|x| x.1);
    let shape = if !r.malformed.is_empty() {
        format!("bad:{}", r.malformed.join("+"))
    } else if r.status == "Ok" && c.tree_fmt.is_some() && !r.has_tree && !(c.edge_oriented && s.d == Some(s.o)) {
        "bad:no tree in the response".into()
    } else if r.status == "Ok" && q.d.is_some() && !r.has_route {
        "bad:no route in the response".into()
    } else {
        "ok".into()
    };
    let body = format!(
        "path={} tree={}",
        if r.has_route { show_list(&r.path, |e| e.to_string()) } else { "None".into() },
        if r.has_tree { show_list(&tree, |(p, e)| format!("({},{})", p.map(|x| x.to_string()).unwrap_or("_".into()), e)) } else { "None".into() }
    );
    let payload = format!("{} {} core={} shape={}", r.status, body, core, shape);
    let expected = format!("{} {} core=agree shape=ok", r.status, body);
    let qj = coq_json(&query);
    let cfg_t = coq_fcfg(&fc);
    let terms = vec![
        format!(
            "E2E.line_frontier {}%Z {} {} {} {} {} {} {} {} {} {} {}",
            id,
            c.net.coords.len(),
            coq_edges(c),
            coq_bool(c.edge_oriented),
            s.o,
            nat_opt(&s.d),
            cfg_t,
            qj,
            coq_string(&r.status),
            if r.has_tree { format!("[{}]", coq_list(&tree, |(p, e)| format!("({}, {})", nat_opt(p), e))) } else { "[]".into() },
            if r.has_route { format!("[{}]", coq_list(&r.path, |e| e.to_string())) } else { "[]".into() },
            coq_string(&expected)
        ),
        format!("E2E.line_frontier_M {}%Z {} {} {} {}", id, cfg_t, qj, coq_string(&r.status), coq_string(&expected)),
    ];
    let refused = refused_by_app(&app, c, &query);
    let st = &mut cx.st;
    st.count(&format!("family:{}", fam.split('#').next().unwrap_or(fam)));
    st.count(&format!("status:{}", r.status));
    st.count(&format!("orient:{}", if c.edge_oriented { "edge" } else { "vertex" }));
    st.count(&format!("alg:{}", if c.astar { "a*" } else { "dijkstra" }));
    st.count(&format!("traversal:{}", match c.tm { Tm::Dist(_) => "distance", Tm::Speed { .. } => "speed_table" }));
    st.count(&format!("top:{}", fcfg_kind(&fc)));
    for kd in ["road_class", "vehicle", "turn", "combined"] {
        if fcfg_has(&fc, kd) {
            st.count(&format!("has:{}", kd));
        }
    }
    count_flayouts(st, &fc);
    st.count(&format!("road_classes:{}", match q.extra.get("road_classes") { None => "absent", Some(Value::Array(a)) if a.iter().all(|x| x.is_string()) && !a.is_empty() => "names", Some(Value::Array(_)) => "numbers", _ => "other" }));
    st.count(&format!("destination:{}", if q.d.is_some() { "some" } else { "none" }));
    st.count(&format!("tree_fmt:{}", c.tree_fmt.clone().unwrap_or("none".into())));
    st.count(&format!("n:{}", (c.net.coords.len() + 7) / 8 * 8));
    st.count(&format!("route_edges:{}", if r.path.len() > 6 { "7+".to_string() } else { r.path.len().to_string() }));
    st.count(&format!("tree_size:{}", (r.tree.len() + 3) / 4 * 4));
    st.count(&format!("core:{}", core.split(':').next().unwrap_or("")));
    let nref = refused.as_ref().map(|x| x.len()).unwrap_or(0);
    st.count(&format!("refused_edges_pct:{}", if refused.is_none() { "n/a".to_string() } else if c.net.edges.is_empty() { "0".into() } else { ((nref * 100 / c.net.edges.len() + 9) / 10 * 10).to_string() }));
    // non-trivial: the frontier refuses some edge or has turn pairs, and the search returns a tree of >= 3 entries, a route
    // of >= 2 edges or no path; or the query is refused
    if ((nref > 0 || fcfg_has(&fc, "turn")) && (r.path.len() >= 2 || r.tree.len() >= 3 || r.status == "nopath")) || r.status == "err" {
        st.mark_nontrivial(&format!("{}|{}", cfg_json(c), qry_json(q)));
    }
    let d = desc2(cx, id, fam, c, q, &payload);
    cx.st.case(terms, vec![format!("I {} {}", id, payload)], d);
}

/// four cells in a row, the short way 0-1-2-3 (and back) and a long direct edge 0->3 / 3->0
fn bypass_net() -> Net {
    let edges = [(0usize, 1usize), (1, 2), (2, 3), (0, 3), (3, 2), (2, 1), (1, 0), (3, 0)];
    net_of((0..4).map(cell).collect(), &edges, |i| if i == 3 || i == 7 { 3.0 } else { 1.05 + 0.01 * i as f64 }, |i| SPEEDS[i % 8], |_| 0)
}
fn frontier_shapes() -> Vec<(String, Cfg, Qry)> {
    let mut out: Vec<(String, Cfg, Qry)> = vec![];
    let net = bypass_net();
    let named: Vec<(String, u8)> = vec![("road".into(), 0), ("path".into(), 3), ("track".into(), 255)];
    let rc = |mapping: &[(String, u8)]| FCfg::RoadClass { lookup: vec![0, 3, 0, 0, 0, 3, 0, 0], mapping: mapping.to_vec() };
    let veh = truck();
    let vehc = FCfg::Vehicle {
        rows: vec![
            (1, "maximum_height".into(), 13.0, "feet".into()),
            (5, "maximum_weight_per_axle".into(), 7.0, "tons".into()),
            (0, "maximum_height".into(), 14.0, "feet".into()),
            (2, "maximum_total_weight".into(), 80000.0, "pounds".into()),
            (4, "maximum_length".into(), 0.02, "miles".into()),
            (6, "maximum_width".into(), 102.0, "inches".into()),
        ],
    };
    let turn = FCfg::Turn { pairs: vec![(0, 1), (4, 5), (1, 0), (5, 4)] };
    let ex = |kv: &[(&str, Value)]| -> Map<String, Value> { kv.iter().map(|(k, v)| (k.to_string(), v.clone())).collect() };
    for (ai, astar) in [false, true].into_iter().enumerate() {
        let mut mk = |name: &str, fc: FCfg, extra: Map<String, Value>, eo: bool, o: usize, d: Option<usize>| {
            let mut c = dist_cfg(net.clone(), "Meters", 0.0);
            c.astar = astar;
            c.frontier = Some(fc);
            c.edge_oriented = eo;
            c.tree_fmt = Some(if (out.len() + ai) % 3 == 0 { "edge_id".into() } else { "json".into() });
            let mut q = plain_q(o, d);
            q.extra = extra;
            out.push((name.to_string(), c, q));
        };
        mk("class_numbers_forbid_short_path", rc(&[]), ex(&[("road_classes", json!([0]))]), false, 0, Some(3));
        mk("class_names_forbid_short_path", rc(&named), ex(&[("road_classes", json!(["road"]))]), false, 0, Some(3));
        mk("class_numbers_with_mapping", rc(&named), ex(&[("road_classes", json!([0, 0]))]), false, 3, Some(0));
        mk("class_names_allow_all", rc(&named), ex(&[("road_classes", json!(["path", "road", "track"]))]), false, 0, Some(3));
        mk("class_list_absent", rc(&named), Map::new(), false, 0, Some(3));
        // class ids that differ by 64 (seeded/C04-7): the short path's middle edges have class 71, all others class 7
        let alias_named: Vec<(String, u8)> = vec![("seven".into(), 7), ("seventy_one".into(), 71), ("one_three_five".into(), 135)];
        let rc_alias = |mapping: &[(String, u8)]| FCfg::RoadClass { lookup: vec![7, 71, 7, 7, 7, 71, 7, 7], mapping: mapping.to_vec() };
        mk("class_alias_7_not_71", rc_alias(&[]), ex(&[("road_classes", json!([7]))]), false, 0, Some(3));
        mk("class_alias_71_not_7", rc_alias(&[]), ex(&[("road_classes", json!([71]))]), false, 0, Some(3));
        mk("class_alias_135_only", rc_alias(&alias_named), ex(&[("road_classes", json!([135, 199]))]), false, 0, None);
        mk("class_alias_names_7_not_71", rc_alias(&alias_named), ex(&[("road_classes", json!(["seven", "one_three_five"]))]), false, 0, Some(3));
        mk("class_alias_names_71_not_7", rc_alias(&alias_named), ex(&[("road_classes", json!(["seventy_one"]))]), false, 0, None);
        mk("class_alias_both", rc_alias(&alias_named), ex(&[("road_classes", json!(["seven", "seventy_one"]))]), false, 0, Some(3));
        mk("class_list_empty", rc(&[]), ex(&[("road_classes", json!([]))]), false, 0, Some(3));
        mk("class_other_only", rc(&[]), ex(&[("road_classes", json!([3, 7]))]), false, 0, Some(3));
        mk("class_no_destination", rc(&named), ex(&[("road_classes", json!(["road"]))]), false, 0, None);
        mk("class_names_without_mapping", rc(&[]), ex(&[("road_classes", json!(["road"]))]), false, 0, Some(3));
        mk("class_unknown_name", rc(&named), ex(&[("road_classes", json!(["road", "lane"]))]), false, 0, Some(3));
        mk("class_mixed_list", rc(&named), ex(&[("road_classes", json!([0, "path"]))]), false, 0, Some(3));
        mk("class_out_of_range", rc(&[]), ex(&[("road_classes", json!([0, 256]))]), false, 0, Some(3));
        mk("vehicle_forbids_short_path", vehc.clone(), ex(&[("vehicle_parameters", veh.query())]), false, 0, Some(3));
        mk("vehicle_back", vehc.clone(), ex(&[("vehicle_parameters", veh.query())]), false, 3, Some(0));
        mk("vehicle_no_destination", vehc.clone(), ex(&[("vehicle_parameters", veh.query())]), false, 0, None);
        mk("vehicle_parameters_missing", vehc.clone(), Map::new(), false, 0, Some(3));
        let mut small = veh.clone();
        small.height = (3.0, 0);
        small.total_weight = (30000.0, 2);
        mk("vehicle_small_passes", vehc.clone(), ex(&[("vehicle_parameters", small.query())]), false, 0, Some(3));
        let mut no_axles = veh.query();
        no_axles.as_object_mut().unwrap().remove("number_of_axles");
        mk("vehicle_field_missing", vehc.clone(), ex(&[("vehicle_parameters", no_axles)]), false, 0, Some(3));
        mk("turn_forbids_short_path", turn.clone(), Map::new(), false, 0, Some(3));
        // the same table in files whose columns are not in the canonical order (seeded/C04-11)
        let tpairs = [(0usize, 1usize), (4, 5), (1, 0), (5, 4)];
        mk("turn_file_columns_swapped", turn_with_layout(&tpairs, "permX_extras0"), Map::new(), false, 0, Some(3));
        mk("turn_file_leading_column", turn_with_layout(&tpairs, "permId_extras1"), Map::new(), false, 0, Some(3));
        mk("turn_file_swapped_and_extras", turn_with_layout(&tpairs, "permX_extras4"), Map::new(), false, 3, Some(0));
        mk("turn_back", turn.clone(), Map::new(), false, 3, Some(0));
        mk("turn_no_destination", turn.clone(), Map::new(), false, 0, None);
        mk("combined_class_turn", FCfg::Combined(vec![rc(&named), turn.clone()]), ex(&[("road_classes", json!(["road", "path"]))]), false, 0, Some(3));
        mk("combined_turn_vehicle", FCfg::Combined(vec![turn.clone(), vehc.clone()]), ex(&[("vehicle_parameters", small.query())]), false, 0, Some(3));
        mk("combined_all", FCfg::Combined(vec![rc(&named), vehc.clone(), turn.clone()]), ex(&[("road_classes", json!([0])), ("vehicle_parameters", veh.query())]), false, 0, Some(3));
        mk("combined_all_permissive", FCfg::Combined(vec![FCfg::None, rc(&[]), vehc.clone()]), ex(&[("road_classes", json!([0, 3])), ("vehicle_parameters", small.query())]), false, 0, Some(3));
        mk("combined_inner_refuses_query", FCfg::Combined(vec![turn.clone(), vehc.clone()]), ex(&[("road_classes", json!([0]))]), false, 0, Some(3));
        mk("combined_empty", FCfg::Combined(vec![]), Map::new(), false, 0, Some(3));
        mk("everything_forbidden", rc(&[]), ex(&[("road_classes", json!([9]))]), false, 0, Some(3));
        // edge-oriented (the query's own edges are never shown to the frontier model: class K_query_edges)
        mk("eo_origin_edge_forbidden", FCfg::RoadClass { lookup: vec![1, 0, 0, 0, 0, 0, 0, 0], mapping: vec![] }, ex(&[("road_classes", json!([0]))]), true, 0, Some(2));
        mk("eo_destination_edge_forbidden", FCfg::RoadClass { lookup: vec![0, 0, 1, 0, 0, 0, 0, 0], mapping: vec![] }, ex(&[("road_classes", json!([0]))]), true, 0, Some(2));
        mk("eo_interior_edge_forbidden", FCfg::RoadClass { lookup: vec![0, 1, 0, 0, 0, 0, 0, 0], mapping: vec![] }, ex(&[("road_classes", json!([0]))]), true, 0, Some(2));
        mk("eo_turn_at_origin", FCfg::Turn { pairs: vec![(0, 1)] }, Map::new(), true, 0, Some(2));
        mk("eo_all_permitted", rc(&named), ex(&[("road_classes", json!(["road", "path"]))]), true, 0, Some(2));
        // sequences on ONE application instance (consecutive run calls): each step is a case whose `prefix` is the steps
        // before it and which is judged for its own query alone (seeded/C04-13: same numbers in other units; seeded/C05-14:
        // different vehicles, smaller first and larger first)
        let mut seq = |name: &str, fc: FCfg, steps: Vec<Map<String, Value>>, o: usize, d: Option<usize>| {
            for k in 0..steps.len() {
                let mut c = dist_cfg(net.clone(), "Meters", 0.0);
                c.astar = astar;
                c.frontier = Some(fc.clone());
                c.tree_fmt = Some("json".into());
                let mut q = plain_q(o, d);
                q.extra = steps[k].clone();
                q.prefix = steps[..k].iter().map(|e| { let mut p = plain_q(o, d); p.extra = e.clone(); p }).collect();
                out.push((format!("{}#{}", name, k + 1), c, q));
            }
        };
        let feet_pounds = Vehicle { height: (4.0, 4), width: (2.5, 4), total_length: (20.0, 4), trailer_length: (13.5, 4), total_weight: (36.0, 0), axles: 5 };
        let vp = |v: &Vehicle| ex(&[("vehicle_parameters", v.query())]);
        seq("sequence_same_numbers_smaller_first", vehc.clone(), vec![vp(&feet_pounds), vp(&veh)], 0, Some(3));
        seq("sequence_same_numbers_larger_first", vehc.clone(), vec![vp(&veh), vp(&feet_pounds)], 0, Some(3));
        seq("sequence_same_numbers_alternating", FCfg::Combined(vec![rc(&[]), vehc.clone()]), vec![vp(&feet_pounds), vp(&veh), vp(&feet_pounds), vp(&veh)], 0, Some(3));
        seq("sequence_van_then_truck", vehc.clone(), vec![vp(&small), vp(&veh)], 0, Some(3));
        seq("sequence_truck_then_van", vehc.clone(), vec![vp(&veh), vp(&small)], 0, Some(3));
        seq("sequence_van_truck_back", vehc.clone(), vec![vp(&small), vp(&veh), vp(&small)], 3, Some(0));
        seq("sequence_road_classes", rc(&named), vec![ex(&[("road_classes", json!([0]))]), ex(&[("road_classes", json!(["road", "path"]))]), Map::new(), ex(&[("road_classes", json!([3]))]), ex(&[("road_classes", json!(["road"]))])], 0, Some(3));
    }
    // every unit pair of the vehicle's quantity and the row's unit, limit clearly above / below: chain 0-1-2-..., the
    // restricted edge is the only way
    let mut k = 0usize;
    for kind in 0..6 {
        let nunits = if KINDS[kind].2 { 3 } else { 5 };
        for vu in 0..nunits {
            for ru in 0..nunits {
                k += 1;
                // one pair in three (every kind and every unit still occurs on both sides)
                if k % 3 != 1 {
                    continue;
                }
                let mut v = truck();
                match KINDS[kind].1 {
                    "height" => v.height.1 = vu,
                    "width" => v.width.1 = vu,
                    "total_length" => v.total_length.1 = vu,
                    "trailer_length" => v.trailer_length.1 = vu,
                    _ => v.total_weight.1 = vu,
                }
                let unit = if KINDS[kind].2 { WEIGHT_UNITS[ru] } else { DIST_UNITS[ru] };
                let below = (k / 3) % 3 == 0;
                let lim = v.converted(kind, ru) * if below { 0.99 } else { 1.01 };
                let chain = net_of((0..4).map(cell).collect(), &[(0, 1), (1, 2), (2, 3)], |i| 1.1 + 0.1 * i as f64, |i| SPEEDS[i], |_| 0);
                let mut c = dist_cfg(chain, "Meters", 0.0);
                c.astar = k % 2 == 0;
                c.frontier = Some(FCfg::Vehicle { rows: vec![(1, KINDS[kind].0.to_string(), lim, unit.to_string())] });
                let mut q = plain_q(0, Some(3));
                q.extra = ex(&[("vehicle_parameters", v.query())]);
                out.push((format!("unit_pair_{}", if below { "below" } else { "above" }), c, q));
            }
        }
    }
    out
}
fn gen_frontier_case(r: &mut Rng, work: &Path) -> (String, Cfg, Qry, Vec<&'static str>) {
    let (net, flags) = gen_net(r, true);
    let mut c = if r.chance(2, 3) { dist_cfg(net, *r.pick(&DIST), 0.0) } else { base_cfg(net) };
    // dijkstra or a* with the default weight factor over a consistent estimate: a search that never re-opens a vertex
    c.astar = r.chance(1, 2);
    c.summary = r.chance(1, 2);
    c.route_fmt = if r.chance(1, 5) { "json".into() } else { "edge_id".into() };
    c.tree_fmt = Some(if r.chance(1, 3) { "edge_id".into() } else { "json".into() });
    c.edge_oriented = r.chance(1, 10);
    let (fc, extra) = gen_frontier(r, &c.net);
    c.frontier = Some(fc);
    let mut q = plain_q(0, None);
    q.extra = extra;
    // the edges this query may not use, as the application's own model sees them (guides the choice of the end points only)
    let forbid: Vec<usize> = match build(&c, &work.join("probe")) {
        Ok(app) => refused_by_app(&app, &c, &query_value(&c, &q)).unwrap_or_default(),
        Err(_) => vec![],
    };
    q.o = if r.chance(3, 4) { pick_origin(r, &c, &forbid) } else { r.below(if c.edge_oriented { c.net.edges.len() } else { c.net.coords.len() } as u64) as usize };
    if !r.chance(1, 5) || c.edge_oriented {
        q.d = Some(pick_target(r, &c, &forbid, q.o, 80));
    }
    (if c.edge_oriented { "random_edge_oriented".to_string() } else { "random".to_string() }, c, q, flags)
}

// ------------------------------------------------------------------------------------------ app_limits (C10)

const LHEADER: &str = "From Coq Require Import ZArith NArith QArith List String Floats.\nFrom RC Require Import Base.Show Base.Num Base.Res Base.Json Model.Search Model.SearchRun Model.E2ERun.\nImport ListNotations.\nOpen Scope nat_scope.";
const GENEROUS: &str = "1:00:00";

/// what one response of a sweep shows: status, the explanation of a 'terminated' error, iterations (summary plugin),
/// tree entries (key vertex = far end of the edge, terminal vertex, edge), every route's edge ids, digest of the rest
#[derive(Clone, Debug, PartialEq)]
struct LObs {
    status: String,
    msg: String,
    iters: u64,
    trees: Vec<Vec<(usize, usize, usize)>>,
    routes: Vec<Vec<usize>>,
    digest: u64,
}
const TERMINATED_MARK: &str = "query terminated due to ";
fn lobs_of(c: &Cfg, out: &RunOutcome) -> (LObs, Resp) {
    let r = parse_response(out);
    let mut o = LObs { status: r.status.clone(), msg: String::new(), iters: 0, trees: vec![], routes: vec![], digest: 0 };
    if r.status == "err" || r.status == "terminated" {
        if let Some(i) = r.err.find(TERMINATED_MARK) {
            o.status = "terminated".into();
            o.msg = r.err[i + TERMINATED_MARK.len()..].to_string();
        } else {
            o.status = "err".into();
        }
    }
    if r.status != "Ok" {
        return (o, r);
    }
    let mut malformed = r.malformed.clone();
    // several trees (k-shortest-paths) are rendered as an array of arrays: not looked at (tree output is off there)
    malformed.retain(|m| !(c.ksp.is_some() && m == "tree element"));
    let routes = parse_routes(&r.raw, &mut malformed);
    o.iters = r.raw.get("iterations").and_then(|x| x.as_u64()).unwrap_or(0);
    if r.has_tree && c.ksp.is_none() {
        let mut t: Vec<(usize, usize, usize)> = r.tree.iter().map(|(p, e, _)| (c.net.edges.get(*e).map(|x| x.1).unwrap_or(usize::MAX >> 8), p.unwrap_or(usize::MAX >> 8), *e)).collect();
        t.sort();
        o.trees = vec![t];
    }
    o.routes = routes.iter().map(|x| x.path.clone()).collect();
    // everything else the response says (states, costs, counters), in a canonical order
    let mut tree_states: Vec<String> = r.tree.iter().map(|(p, e, st)| format!("{:?}/{}/{}", p, e, show_list(st, |x| show_f64(*x)))).collect();
    tree_states.sort();
    let rest = format!(
        "{}|{}|{:?}|{:?}|{}|{}",
        routes.iter().map(|x| format!("{}:{}", show_kv(&x.summary), show_list(&x.recs, |et| format!("{}:{}:{}", show_f64(et.access_cost.as_f64()), show_f64(et.traversal_cost.as_f64()), show_list(&et.result_state, |v| show_f64(v.0)))))).collect::<Vec<_>>().join(";"),
        show_kv(&r.cost),
        r.route_edges,
        r.tree_size,
        tree_states.join(";"),
        malformed.join("+")
    );
    o.digest = fnv(&rest) >> 2;
    (o, r)
}
fn show_lobs(o: &LObs) -> String {
    if o.status == "Ok" {
        format!(
            "Ok it={} trees={} routes={} d={}",
            o.iters,
            show_list(&o.trees, |t| show_list(t, |(v, p, e)| format!("({},{},{})", v, p, e))),
            show_list(&o.routes, |r| show_list(r, |e| e.to_string())),
            o.digest
        )
    } else if o.status == "terminated" {
        format!("T[{}]", o.msg)
    } else {
        o.status.clone()
    }
}
fn coq_lobs(o: &LObs) -> String {
    format!(
        "(E2E.mk_obs {} {} {} {} {} {}%Z)",
        coq_string(&o.status),
        coq_string(&o.msg),
        o.iters,
        coq_list(&o.trees, |t| coq_list(t, |(v, p, e)| format!("({}, {}, {})", v, p, e))),
        coq_list(&o.routes, |r| coq_list(r, |e| e.to_string())),
        o.digest
    )
}
/// the same query on the core API, on THIS thread, under the instance the application builds for it, with the counters
/// of every limit test recorded (hook H2 is per thread; the application searches on rayon workers): the unlimited
/// run's counters.  Returns (counters, status, routes).
fn core_counters(app: &Arc<CompassApp>, c: &Cfg, s: &Sem, req: &Value) -> (Vec<(usize, u64)>, String, Vec<Vec<usize>>) {
    use routee_compass_core::model::termination::termination_model::verif_clock;
    let app2 = app.clone();
    let req2 = req.clone();
    let (o, d, eo) = (s.o, s.d, c.edge_oriented);
    verif_clock::start_test_trace();
    let res = catch(AssertUnwindSafe(move || {
        let si = app2.search_app.build_search_instance(&req2).map_err(|e| sk::classify_error(&e))?;
        let alg = &app2.search_app.search_algorithm;
        let out = if eo {
            alg.run_edge_oriented(EdgeId(o), d.map(EdgeId), &req2, &Direction::Forward, &si)
        } else {
            alg.run_vertex_oriented(VertexId(o), d.map(VertexId), &req2, &Direction::Forward, &si)
        };
        out.map(|x| x.routes.iter().map(|rt| rt.iter().map(|et| et.edge_id.0).collect::<Vec<usize>>()).collect::<Vec<_>>()).map_err(|e| sk::classify_error(&e))
    }));
    let trace = verif_clock::take_test_trace();
    match res {
        Err(_) => (trace, "Panic".into(), vec![]),
        Ok(Err(cls)) => (trace, if cls.starts_with("err") { "err".into() } else { cls }, vec![]),
        Ok(Ok(routes)) => (trace, "Ok".into(), routes),
    }
}
/// limits 0..=hi; when that is more than `cap` values keep both ends and a random sample of the middle
fn limit_range(rng: &mut Rng, hi: u64, cap: usize) -> Vec<u64> {
    let all: Vec<u64> = (0..=hi).collect();
    if all.len() <= cap {
        return all;
    }
    let mut keep: Vec<u64> = vec![0, 1, 2];
    for x in hi.saturating_sub(4)..=hi {
        keep.push(x);
    }
    while keep.len() < cap {
        keep.push(3 + rng.below(hi - 7));
    }
    keep.sort();
    keep.dedup();
    keep
}
/// the sweep of [termination] sections of one case
fn gen_limit_sweep(rng: &mut Rng, needed_it: u64, needed_sz: u64, cap: usize) -> Vec<Value> {
    let mut js: Vec<Value> = vec![];
    for l in limit_range(rng, needed_it + 2, cap) {
        js.push(json!({"type": "iterations", "limit": l}));
    }
    for l in limit_range(rng, needed_sz + 2, cap) {
        js.push(json!({"type": "solution_size", "limit": l}));
    }
    let (a, b) = (rng.below(needed_it + 2), rng.below(needed_sz + 2));
    js.push(json!({"type": "combined", "models": [{"type": "iterations", "limit": a}, {"type": "solution_size", "limit": b}]}));
    js.push(json!({"type": "combined", "models": [{"type": "solution_size", "limit": needed_sz}, {"type": "iterations", "limit": needed_it}]}));
    js.push(json!({"type": "combined", "models": [{"type": "solution_size", "limit": 0}, {"type": "iterations", "limit": needed_it + 1}]}));
    js.push(json!({"type": "Iterations", "limit": rng.below(needed_it + 2)}));
    let f = 1 + rng.below(4);
    js.push(json!({"type": "query_runtime", "limit": GENEROUS, "frequency": f}));
    js.push(json!({"type": "combined", "models": [{"type": "query_runtime", "limit": GENEROUS, "frequency": f}, {"type": "iterations", "limit": a}]}));
    // (C10) two limits of the same kind in one combined section, the stricter one first: directly, and with the looser
    // one inside a nested combined block; the control order
    let strict = rng.below(needed_it.max(1));
    js.push(json!({"type": "combined", "models": [{"type": "iterations", "limit": strict}, {"type": "iterations", "limit": needed_it + 1000}]}));
    js.push(json!({"type": "combined", "models": [{"type": "iterations", "limit": strict},
        {"type": "combined", "models": [{"type": "query_runtime", "limit": GENEROUS, "frequency": f}, {"type": "iterations", "limit": needed_it + 1000}]}]}));
    js.push(json!({"type": "combined", "models": [{"type": "solution_size", "limit": needed_sz + 1000}, {"type": "solution_size", "limit": rng.below(needed_sz.max(1))}]}));
    js
}
fn limit_kind(j: &Value) -> String {
    let t = j["type"].as_str().unwrap_or("?").to_lowercase();
    if t == "combined" {
        let inner: Vec<String> = j["models"].as_array().map(|a| a.iter().map(limit_kind).collect()).unwrap_or_default();
        format!("combined[{}]", inner.join("+"))
    } else {
        t
    }
}

fn add_limits(cx: &mut Ctx, fam: &str, c0: &Cfg, q: &Qry, sweep: Option<Vec<Value>>, rng: &mut Rng) {
    let id = cx.st.next_id();
    // ---- the unlimited application: [termination] = combined of nothing
    let mut cu = c0.clone();
    cu.term = Some(json!({"type": "combined", "models": []}));
    let app_u = match build(&cu, &cx.work.join(format!("c{}u", id))) {
        Ok(a) => a,
        Err(e) => return build_failed2(cx, fam, &cu, q, &e, &["S"]),
    };
    let query = query_value(&cu, q);
    let out_u = run_watchdog(&app_u, vec![query.clone()], None, WATCHDOG_MS);
    let (unl, ru) = lobs_of(&cu, &out_u);
    let s = semantics(&cu, q, &ru);
    cx.last_err = ru.err.clone();
    let (trace, core_status, core_routes) = core_counters(&app_u, &cu, &s, &query);
    // the direct run must be the application's run: same status, same routes (its counters stand for the application's)
    let core = if core_status == unl.status || (unl.status == "err" && core_status == "Ok" && core_routes.iter().all(|r| r.is_empty())) {
        if unl.status != "Ok" || core_routes == unl.routes { "agree".to_string() } else { format!("differ:routes core={:?}", core_routes) }
    } else {
        format!("differ:core={} app={}", core_status, unl.status)
    };
    let needed_it = trace.iter().map(|(_, i)| *i + 1).max().unwrap_or(0);
    let needed_sz = trace.iter().map(|(z, _)| *z as u64).max().unwrap_or(0);
    let js = sweep.unwrap_or_else(|| gen_limit_sweep(rng, needed_it, needed_sz, 9));
    // ---- one application per configured limit
    let mut shown: Vec<String> = vec![];
    let mut coq_cs: Vec<String> = vec![];
    let mut n_term = 0usize;
    for (i, j) in js.iter().enumerate() {
        let mut cj = c0.clone();
        cj.term = Some(j.clone());
        let label = show_json(j, false);
        match build(&cj, &cx.work.join(format!("c{}_{}", id, i))) {
            Err(e) => {
                shown.push(format!("{} => BUILD-FAILED {}", label, e.replace('\n', " ").chars().take(120).collect::<String>()));
                cx.st.count("entry:build_failed");
            }
            Ok(app) => {
                let out = run_watchdog(&app, vec![query.clone()], None, WATCHDOG_MS);
                let (o, _) = lobs_of(&cj, &out);
                cx.st.count(&format!("entry:{}", if o.status == "terminated" { "terminated" } else if o == unl { "same_as_unlimited" } else { "other" }));
                cx.st.count(&format!("kind:{}", limit_kind(j)));
                if o.status == "terminated" {
                    n_term += 1;
                    for k in ["iteration limit", "solution size limit", "runtime limit"] {
                        if o.msg.contains(k) {
                            cx.st.count(&format!("explanation:{}", k));
                        }
                    }
                }
                shown.push(format!("{} => {}", label, if o == unl { "=".to_string() } else { show_lobs(&o) }));
                coq_cs.push(format!("({}, {})", coq_json(j), if o == unl { "u".to_string() } else { coq_lobs(&o) }));
            }
        }
        let _ = std::fs::remove_dir_all(cx.work.join(format!("c{}_{}", id, i)));
    }
    let head = format!("U{{{} tr={}}}", show_lobs(&unl), show_list(&trace, |(z, i)| format!("({},{})", z, i)));
    let payload = format!("{} core={} {}", head, core, shown.join(" | "));
    let expected = format!("{} core=agree {}", head, shown.join(" | "));
    let term = format!(
        "let u := {} in E2E.line_limits {}%Z {} {} {} {} u {} [{}] {}",
        coq_lobs(&unl),
        id,
        cu.net.coords.len(),
        coq_edges(&cu),
        coq_bool(cu.edge_oriented),
        coq_bool(cu.ksp.is_some()),
        coq_list(&trace, |(z, i)| format!("({}, {})", z, i)),
        coq_cs.join("; "),
        coq_string(&expected)
    );
    let st = &mut cx.st;
    st.count(&format!("family:{}", fam.split('#').next().unwrap_or(fam)));
    st.count(&format!("unlimited_status:{}", unl.status));
    st.count(&format!("orient:{}", if cu.edge_oriented { "edge" } else { "vertex" }));
    st.count(&format!("alg:{}", match &cu.ksp { Some(k) if k.yens => "yens", Some(_) => "ksp_single_via", None if cu.astar => "a*", None => "dijkstra" }));
    st.count(&format!("traversal:{}", match cu.tm { Tm::Dist(_) => "distance", Tm::Speed { .. } => "speed_table" }));
    st.count(&format!("unlimited_tests:{}", (trace.len() + 7) / 8 * 8));
    st.count(&format!("sweep_entries:{}", (js.len() + 3) / 4 * 4));
    st.count(&format!("core:{}", core.split(':').next().unwrap_or("")));
    st.count(&format!("n:{}", (cu.net.coords.len() + 7) / 8 * 8));
    if trace.len() >= 3 && n_term >= 1 {
        st.mark_nontrivial(&format!("{}|{}", cfg_json(c0), qry_json(q)));
    }
    let mut d = desc2(cx, id, fam, c0, q, &payload);
    d["sweep"] = Value::Array(js.clone());
    d["unlimited"] = json!(show_lobs(&unl).chars().take(200).collect::<String>());
    cx.st.case(vec![term], vec![format!("I {} {}", id, payload)], d);
}

fn limits_cfg(net: Net, astar: bool) -> Cfg {
    let mut c = dist_cfg(net, "Meters", 0.0);
    c.astar = astar;
    c.route_fmt = "edge_id".into();
    c.tree_fmt = Some("json".into());
    c.summary = true;
    c
}
fn star_net() -> Net {
    // vertex 0 with six neighbours (1..6), the destination 7 behind neighbour 6
    let mut edges: Vec<(usize, usize)> = (1..=6).map(|i| (0usize, i as usize)).collect();
    edges.push((6, 7));
    net_of(vec![cell(9), cell(0), cell(1), cell(2), cell(8), cell(10), cell(16), cell(24)], &edges, |i| 1.05 + 0.03 * i as f64, |i| SPEEDS[i % 8], |_| 0)
}
fn two_way_grid(w: usize, h: usize, factor: impl Fn(usize) -> f64) -> Net {
    let mut edges = vec![];
    let idx = |i: usize, j: usize| j * w + i;
    for j in 0..h {
        for i in 0..w {
            if i + 1 < w {
                edges.push((idx(i, j), idx(i + 1, j)));
                edges.push((idx(i + 1, j), idx(i, j)));
            }
            if j + 1 < h {
                edges.push((idx(i, j), idx(i, j + 1)));
                edges.push((idx(i, j + 1), idx(i, j)));
            }
        }
    }
    let coords = (0..h).flat_map(|j| (0..w).map(move |i| cell(j * 8 + i))).collect();
    net_of(coords, &edges, factor, |i| SPEEDS[i % 8], |_| 0)
}
fn limits_shapes() -> Vec<(String, Cfg, Qry)> {
    let mut out = vec![];
    let chain = |n: usize| net_of((0..n).map(cell).collect(), &(0..n - 1).map(|i| (i, i + 1)).collect::<Vec<_>>(), |i| 1.05 + 0.02 * i as f64, |i| SPEEDS[i % 8], |_| 0);
    for astar in [false, true] {
        out.push(("chain".to_string(), limits_cfg(chain(6), astar), plain_q(0, Some(5))));
        out.push(("chain_no_destination".to_string(), limits_cfg(chain(5), astar), plain_q(0, None)));
        out.push(("chain_unreachable".to_string(), limits_cfg(chain(5), astar), plain_q(2, Some(0))));
        out.push(("star_degree_six".to_string(), limits_cfg(star_net(), astar), plain_q(0, Some(7))));
        out.push(("star_degree_six_no_destination".to_string(), limits_cfg(star_net(), astar), plain_q(0, None)));
        out.push(("zigzag".to_string(), limits_cfg(zig_net(), astar), plain_q(0, Some(4))));
        out.push(("neighbour_destination".to_string(), limits_cfg(chain(4), astar), plain_q(1, Some(2))));
        let mut eo = limits_cfg(chain(7), astar);
        eo.edge_oriented = true;
        out.push(("edge_oriented_chain".to_string(), eo, plain_q(0, Some(5))));
        let mut sp = base_cfg(zig_net());
        sp.astar = astar;
        sp.route_fmt = "json".into();
        out.push(("speed_table_zigzag".to_string(), sp, plain_q(4, Some(0))));
        // k-shortest-paths on top: the limit applies to every sub-search
        for (k, sim) in [(1usize, None), (3, None), (3, Some(KSim::EdgeId(2)))] {
            let mut kc = limits_cfg(two_way_grid(3, 2, |i| 1.05 + 0.013 * i as f64), astar);
            kc.tree_fmt = None;
            kc.ksp = Some(KspCfg { yens: false, k, sim, term: None });
            out.push((format!("ksp_single_via_k{}", k), kc, plain_q(0, Some(5))));
        }
        let mut yc = limits_cfg(chain(5), astar);
        yc.tree_fmt = None;
        yc.ksp = Some(KspCfg { yens: true, k: 1, sim: None, term: None });
        out.push(("yens_k1".to_string(), yc, plain_q(0, Some(4))));
    }
    out
}
fn gen_limits_case(r: &mut Rng) -> (String, Cfg, Qry, Vec<&'static str>) {
    let (net, flags) = gen_net(r, true);
    let mut c = if r.chance(3, 4) { limits_cfg(net, r.chance(1, 2)) } else { Cfg { astar: r.chance(1, 2), ..base_cfg(net) } };
    c.route_fmt = if r.chance(1, 4) { "json".into() } else { "edge_id".into() };
    c.edge_oriented = r.chance(1, 8);
    let ksp = !c.edge_oriented && r.chance(1, 5);
    if ksp {
        c.tree_fmt = None;
        c.ksp = Some(KspCfg { yens: false, k: 1 + r.below(3) as usize, sim: if r.chance(1, 2) { Some(KSim::EdgeId(1 + r.below(3) as usize)) } else { None }, term: None });
    }
    let mut q = plain_q(0, None);
    q.o = pick_origin(r, &c, &[]);
    if ksp || c.edge_oriented || !r.chance(1, 5) {
        q.d = Some(pick_target(r, &c, &[], q.o, 85));
    }
    (if ksp { "random_ksp".to_string() } else { "random".to_string() }, c, q, flags)
}

// ------------------------------------------------------------------------------------------ app_ksp (C13)

const KHEADER: &str = "From Coq Require Import ZArith QArith List String Floats.\nFrom RC Require Import Base.Show Base.Num Model.Search Model.SearchRun Model.Ksp Model.KspSpec Model.KspRun Model.E2ERun.\nImport ListNotations.\nOpen Scope nat_scope.";

fn coq_ksim_f(s: &KSim) -> String {
    match s {
        KSim::AcceptAll => "Ksp.SAcceptAll".into(),
        KSim::EdgeId(i) => format!("(Ksp.SEdgeIdCosine {})", coq_f64(THRESHOLDS[*i].0)),
        KSim::Distance(i) => format!("(Ksp.SDistanceCosine {})", coq_f64(THRESHOLDS[*i].0)),
    }
}
fn coq_ksim_q(s: &KSim) -> String {
    match s {
        KSim::AcceptAll => "(@Ksp.SAcceptAll Q)".into(),
        KSim::EdgeId(i) => format!("(Ksp.SEdgeIdCosine ({} # {})%Q)", THRESHOLDS[*i].1, THRESHOLDS[*i].2),
        KSim::Distance(i) => format!("(Ksp.SDistanceCosine ({} # {})%Q)", THRESHOLDS[*i].1, THRESHOLDS[*i].2),
    }
}
/// the query's "k" as the model's query_k
fn coq_qk(q: &Qry) -> (String, Option<usize>) {
    match q.extra.get("k") {
        None => ("Ksp.QKAbsent".into(), None),
        Some(v) => match v.as_u64() {
            Some(k) => (format!("(Ksp.QKNat {})", k), Some(k as usize)),
            None => ("Ksp.QKBad".into(), None),
        },
    }
}
/// number of routes of the same query under the default AcceptAll: the application's own instance, the configured
/// algorithm section without its similarity key, on the core API
fn accept_all_count(app: &Arc<CompassApp>, c: &Cfg, k: &KspCfg, s: &Sem, req: &Value) -> Option<usize> {
    use routee_compass_core::algorithm::search::search_algorithm::SearchAlgorithm;
    let mut under = json!({"type": if c.astar { "a*" } else { "dijkstra" }});
    if let (true, Some(w)) = (c.astar, c.cfg_wf) {
        under["weight_factor"] = json!(w);
    }
    let alg_json = ksp_algorithm_json(k, under, false);
    let (app2, req2, o, d) = (app.clone(), req.clone(), s.o, s.d);
    call_watchdog_local(
        move || {
            let alg: SearchAlgorithm = serde_json::from_value(alg_json).ok()?;
            let si = app2.search_app.build_search_instance(&req2).ok()?;
            alg.run_vertex_oriented(VertexId(o), d.map(VertexId), &req2, &Direction::Forward, &si).ok().map(|x| x.routes.len())
        },
        WATCHDOG_MS,
    )
    .flatten()
}
fn call_watchdog_local<T: Send + 'static>(f: impl FnOnce() -> T + Send + 'static, ms: u64) -> Option<T> {
    verif_harness::appkit::call_watchdog(f, ms).and_then(|r| r.ok())
}

fn add_ksp(cx: &mut Ctx, fam: &str, c: &Cfg, q: &Qry) {
    let id = cx.st.next_id();
    let kc = c.ksp.clone().expect("app_ksp case without a k-shortest-paths section");
    let app = match build(c, &cx.work.join(format!("c{}", id))) {
        Ok(a) => a,
        Err(e) => return build_failed2(cx, fam, c, q, &e, &["S"]),
    };
    let query = query_value(c, q);
    let out = run_watchdog(&app, vec![query.clone()], None, WATCHDOG_MS);
    let r = parse_response(&out);
    let s = semantics(c, q, &r);
    cx.last_err = r.err.clone();
    let mut malformed: Vec<String> = r.malformed.iter().filter(|m| *m != "route is neither object nor null").cloned().collect();
    let routes = if r.status == "Ok" { parse_routes(&r.raw, &mut malformed) } else { vec![] };
    // status as the checker names it
    let status = match r.status.as_str() {
        "err" if r.err.contains("without destination") || r.err.contains("user supplied k value") => "err:build".to_string(),
        "err" if r.err.contains(TERMINATED_MARK) => "terminated".to_string(),
        x => x.to_string(),
    };
    let init = match c.state.first() {
        Some((_, Feat::Distance(_, i))) => *i,
        _ => 0.0,
    };
    // the world the checker judges against: edge cost = edge length in meters (the distance model's only feature, weight 1)
    let mut w = sk::World::new(c.net.coords.len(), c.net.edges.iter().map(|e| (e.0, e.1)).collect(), c.net.edges.iter().map(|e| e.2).collect());
    w.init = init;
    let o = sk::Outcome {
        status: status.clone(),
        iters: r.raw.get("iterations").and_then(|x| x.as_u64()).unwrap_or(0),
        trees: vec![],
        routes: routes
            .iter()
            .map(|ro| {
                if ro.recs.len() == ro.path.len() {
                    ro.recs.iter().map(|et| sk::Hop { edge: et.edge_id.0, access: et.access_cost.as_f64(), trav: et.traversal_cost.as_f64(), state: et.result_state.first().map(|x| x.0).unwrap_or(f64::NAN) }).collect()
                } else {
                    ro.path.iter().map(|e| sk::Hop { edge: *e, access: 0.0, trav: 0.0, state: f64::NAN }).collect()
                }
            })
            .collect(),
    };
    // each route's traversal_summary is its own last state
    for (i, ro) in routes.iter().enumerate() {
        let last = ro.recs.last().and_then(|et| et.result_state.first().map(|x| x.0));
        let summ = ro.summary.iter().find(|(k, _)| k == "distance").map(|x| x.1);
        if last.is_none() || summ.map(|x| x.to_bits()) != last.map(|x| x.to_bits()) {
            malformed.push(format!("traversal_summary of route {} is not its last state", i));
        }
    }
    if let Some(re) = r.route_edges {
        if r.status == "Ok" && re as usize != routes.iter().map(|x| x.path.len()).sum::<usize>() {
            malformed.push("route_edges is not the number of route edges".into());
        }
    }
    let sim = kc.sim.clone().unwrap_or(KSim::AcceptAll);
    let aa = if kc.yens || sim == KSim::AcceptAll || status != "Ok" { Some(o.routes.len()) } else { accept_all_count(&app, c, &kc, &s, &query) };
    let pi = if s.o < w.n { sk::true_dist(&w, sk::Dir::Reverse, s.o) } else { vec![None; w.n] };
    let (qk, qk_nat) = coq_qk(q);
    let k_eff = if q.extra.contains_key("k") { qk_nat } else { Some(kc.k) };
    let kq = format!(
        "(KR.mkKQ FN {} {} {} {} {} {} {} {} {})",
        if kc.yens { "Ksp.KYens" } else { "Ksp.KSingleVia" },
        if c.astar { format!("(SR.AAStar FN {})", coq_opt(&c.cfg_wf, |x| coq_f64(*x))) } else { "(SR.ADijkstra FN)".to_string() },
        coq_opt(&q.wf, |x| coq_f64(*x)),
        kc.k,
        qk,
        match &kc.term { None | Some(KTerm::Exact) => "Ksp.KExact".to_string(), Some(KTerm::MaxIteration(m)) => format!("(Ksp.KMaxIteration {})", m), Some(KTerm::Factor(f)) => format!("(Ksp.KFactor {})", f) },
        coq_ksim_f(&sim),
        s.o,
        nat_opt(&s.d)
    );
    let mut payload = format!("{} aa={}", sk::show_outcome(&o, 1), aa.map(|x| x.to_string()).unwrap_or("?".into()));
    let expected = payload.clone();
    // the response renders exactly the routes the configured algorithm returns on the core API (same instance, same query)
    if status == "Ok" {
        let (_, core_status, core_routes) = core_counters(&app, c, &s, &query);
        let shown: Vec<Vec<usize>> = routes.iter().map(|x| x.path.clone()).collect();
        if core_status != "Ok" || core_routes != shown {
            malformed.push(format!("core API returns {} {:?}", core_status, core_routes));
        }
    }
    if !malformed.is_empty() || aa.is_none() || matches!(r.status.as_str(), "RunErr" | "bad") {
        payload += &format!(" shape=bad:{}{}", malformed.join("+"), if aa.is_none() { "+no AcceptAll count" } else { "" });
    }
    // the underlying search is least-cost: Dijkstra, or A* over the consistent great-circle estimate with factor <= 1
    let optimal = !c.astar || c.cfg_wf.map(|x| x <= 1.0).unwrap_or(true) && q.wf.map(|x| x <= 1.0).unwrap_or(true);
    let term = format!(
        "E2E.line_ksp {}%Z {} {} {} {} {} {} {} {}",
        id,
        sk::coq_world(&w, sk::NumKind::F),
        kq,
        coq_ksim_q(&sim),
        coq_list(&pi, |x| coq_opt(x, |f| coq_f64(*f))),
        coq_bool(optimal),
        sk::coq_outcome(&o, sk::NumKind::F),
        aa.unwrap_or(0),
        coq_string(&expected)
    );
    let st = &mut cx.st;
    st.count(&format!("family:{}", fam.split('#').next().unwrap_or(fam)));
    st.count(&format!("status:{}", status));
    st.count(&format!("alg:{}", if kc.yens { "yens" } else { "ksp_single_via" }));
    st.count(&format!("under:{}", if c.astar { "a*" } else { "dijkstra" }));
    st.count(&format!("k:{}", k_eff.map(|k| k.min(7).to_string()).unwrap_or("bad".into())));
    st.count(&format!("k_from:{}", if q.extra.contains_key("k") { "query" } else { "config" }));
    st.count(&format!("sim:{}", match &kc.sim { None => "default".to_string(), Some(KSim::AcceptAll) => "accept_all".to_string(), Some(KSim::EdgeId(i)) => format!("edge_id@{}", THRESHOLDS[*i].0), Some(KSim::Distance(i)) => format!("distance@{}", THRESHOLDS[*i].0) }));
    st.count(&format!("term:{}", match &kc.term { None => "default".to_string(), Some(KTerm::Exact) => "exact".to_string(), Some(KTerm::MaxIteration(_)) => "max_iteration".to_string(), Some(KTerm::Factor(_)) => "factor".to_string() }));
    st.count(&format!("routes:{}", o.routes.len().min(7)));
    st.count(&format!("route_rendering:{}", match r.raw.get("route") { Some(Value::Array(_)) => "array", Some(Value::Object(_)) => "object", Some(Value::Null) => "null", _ => "none" }));
    if status == "Ok" {
        if let (Some(a), Some(k)) = (aa, k_eff) {
            st.count(&format!("aa_minus_routes:{}", (a as i64 - o.routes.len() as i64).min(3)));
            st.count(if o.routes.len() == k { "routes_eq_k" } else if o.routes.len() < k { "routes_lt_k" } else { "routes_gt_k" });
        }
        st.count(&format!("first_route_edges:{}", o.routes.first().map(|x| x.len()).unwrap_or(0).min(6)));
    }
    st.count(&format!("n:{}", (w.n + 7) / 8 * 8));
    if init != 0.0 {
        st.count("nonzero_initial_state");
    }
    if o.routes.len() >= 2 || status != "Ok" {
        st.mark_nontrivial(&format!("{}|{}", cfg_json(c), qry_json(q)));
    }
    let mut d = desc2(cx, id, fam, c, q, &payload);
    d["ksp"] = json!({"alg": if kc.yens { "yens" } else { "single_via" }, "k": kc.k, "qk": match q.extra.get("k") { None => json!("absent"), Some(v) => match v.as_u64() { Some(k) => json!({"nat": k}), None => json!({"bad": v}) } }});
    cx.st.case(vec![term], vec![format!("I {} {}", id, payload)], d);
}

fn ksp_cfg(net: Net, astar: bool, init: f64, k: KspCfg) -> Cfg {
    let mut c = dist_cfg(net, "Meters", init);
    c.astar = astar;
    c.route_fmt = "json".into();
    c.tree_fmt = None;
    c.summary = true;
    c.ksp = Some(k);
    c
}
/// 0 -> 3 three ways: 0-1-3 (short), 0-2-3, and the long direct edge; all two-way
fn diamond_net() -> Net {
    let edges = [(0usize, 1usize), (1, 3), (0, 2), (2, 3), (0, 3), (1, 0), (3, 1), (2, 0), (3, 2)];
    net_of(vec![cell(0), cell(1), cell(8), cell(9)], &edges, |i| [1.05, 1.07, 1.3, 1.25, 2.0, 1.1, 1.12, 1.4, 1.45][i], |i| SPEEDS[i % 8], |_| 0)
}
/// shortest 0-1-2-3 along the bottom row, a parallel lane 0-4-5-6-7-3 over the top row, rungs in between
fn two_lanes_net() -> Net {
    two_way_grid(4, 2, |i| 1.04 + 0.017 * ((i * 7) % 11) as f64)
}
fn ksp_shapes() -> Vec<(String, Cfg, Qry)> {
    let mut out: Vec<(String, Cfg, Qry)> = vec![];
    let sv = |k: usize, sim: Option<KSim>, term: Option<KTerm>| KspCfg { yens: false, k, sim, term };
    let with_k = |o: usize, d: Option<usize>, k: Value| {
        let mut q = plain_q(o, d);
        q.extra.insert("k".into(), k);
        q
    };
    for astar in [false, true] {
        for k in 1..=4 {
            out.push((format!("diamond_k{}", k), ksp_cfg(diamond_net(), astar, 0.0, sv(k, None, None)), plain_q(0, Some(3))));
            out.push((format!("two_lanes_k{}", k), ksp_cfg(two_lanes_net(), astar, if k % 2 == 0 { 250.0 } else { 0.0 }, sv(k, None, None)), plain_q(0, Some(3))));
        }
        // k from the query overrides the configured k (both ways), 0, ill-typed
        out.push(("query_k_larger".into(), ksp_cfg(two_lanes_net(), astar, 0.0, sv(1, None, None)), with_k(0, Some(3), json!(4))));
        out.push(("query_k_smaller".into(), ksp_cfg(two_lanes_net(), astar, 0.0, sv(5, None, None)), with_k(0, Some(3), json!(2))));
        out.push(("query_k_one".into(), ksp_cfg(diamond_net(), astar, 0.0, sv(3, None, None)), with_k(0, Some(3), json!(1))));
        out.push(("query_k_zero".into(), ksp_cfg(diamond_net(), astar, 0.0, sv(3, None, None)), with_k(0, Some(3), json!(0))));
        out.push(("query_k_string".into(), ksp_cfg(diamond_net(), astar, 0.0, sv(3, None, None)), with_k(0, Some(3), json!("3"))));
        out.push(("query_k_float".into(), ksp_cfg(diamond_net(), astar, 0.0, sv(3, None, None)), with_k(0, Some(3), json!(2.0))));
        // every similarity function and threshold from the configuration
        for (i, _) in THRESHOLDS.iter().enumerate() {
            for sim in [KSim::EdgeId(i), KSim::Distance(i)] {
                out.push((format!("two_lanes_{:?}", sim), ksp_cfg(two_lanes_net(), astar, 0.0, sv(1, Some(sim), None)), with_k(0, Some(3), json!(4))));
            }
        }
        out.push(("diamond_accept_all_explicit".into(), ksp_cfg(diamond_net(), astar, 0.0, sv(3, Some(KSim::AcceptAll), Some(KTerm::Exact))), plain_q(0, Some(3))));
        for t in [KTerm::MaxIteration(1), KTerm::MaxIteration(8), KTerm::Factor(0), KTerm::Factor(2)] {
            out.push(("two_lanes_termination".into(), ksp_cfg(two_lanes_net(), astar, 0.0, sv(3, Some(KSim::EdgeId(3)), Some(t))), plain_q(0, Some(3))));
        }
        // exactly one route exists; a single edge; unreachable; no destination
        let chain = net_of((0..5).map(cell).collect(), &[(0, 1), (1, 2), (2, 3), (3, 4)], |i| 1.05 + 0.1 * i as f64, |i| SPEEDS[i], |_| 0);
        out.push(("only_one_route".into(), ksp_cfg(chain.clone(), astar, 0.0, sv(4, None, None)), plain_q(0, Some(4))));
        out.push(("one_edge".into(), ksp_cfg(chain.clone(), astar, 0.0, sv(3, None, None)), plain_q(1, Some(2))));
        out.push(("unreachable".into(), ksp_cfg(chain.clone(), astar, 0.0, sv(3, None, None)), plain_q(3, Some(0))));
        out.push(("no_destination".into(), ksp_cfg(chain.clone(), astar, 0.0, sv(3, None, None)), plain_q(0, None)));
        // Yen's algorithm with k = 1 only (k >= 2: known finding K_yens_k_ge_2, core check)
        out.push(("yens_k1_diamond".into(), ksp_cfg(diamond_net(), astar, 0.0, KspCfg { yens: true, k: 1, sim: None, term: None }), plain_q(0, Some(3))));
        out.push(("yens_k1_chain".into(), ksp_cfg(chain.clone(), astar, 0.0, KspCfg { yens: true, k: 1, sim: None, term: None }), plain_q(0, Some(4))));
        out.push(("yens_query_k1".into(), ksp_cfg(two_lanes_net(), astar, 0.0, KspCfg { yens: true, k: 3, sim: None, term: None }), with_k(0, Some(3), json!(1))));
    }
    out
}
fn gen_ksp_case(r: &mut Rng) -> (String, Cfg, Qry, Vec<&'static str>) {
    let (net, flags, fam) = match r.below(10) {
        0..=3 => {
            let (w, h) = (2 + r.below(4) as usize, 2 + r.below(3) as usize);
            let fs: Vec<f64> = (0..4 * w * h).map(|_| 1.02 + r.below(120) as f64 / 100.0).collect();
            (two_way_grid(w, h, |i| fs[i]), vec![], "random_grid")
        }
        4..=6 => {
            // a random network made two-way: every edge gets a return edge of its own length
            let (n0, _) = gen_net(r, true);
            let mut edges: Vec<(usize, usize)> = n0.edges.iter().map(|e| (e.0, e.1)).collect();
            let back: Vec<(usize, usize)> = edges.iter().filter(|e| e.0 != e.1).map(|e| (e.1, e.0)).collect();
            edges.extend(back);
            edges.truncate(120);
            let fs: Vec<f64> = edges.iter().map(|_| 1.02 + r.below(150) as f64 / 100.0).collect();
            (net_of(n0.coords.clone(), &edges, |i| fs[i], |i| SPEEDS[i % 8], |_| 0), vec![], "random_two_way")
        }
        _ => {
            let (n, f) = gen_net(r, true);
            (n, f, "random")
        }
    };
    let yens = r.chance(1, 12);
    let k = if yens { 1 } else { 1 + r.below(5) as usize };
    let sim = match r.below(6) {
        0 | 1 => None,
        2 => Some(KSim::AcceptAll),
        3 | 4 => Some(KSim::EdgeId(r.below(5) as usize)),
        _ => Some(KSim::Distance(r.below(5) as usize)),
    };
    let term = match r.below(8) {
        0 => Some(KTerm::Exact),
        1 => Some(KTerm::MaxIteration(r.below(8))),
        2 => Some(KTerm::Factor(r.below(4))),
        _ => None,
    };
    let mut c = ksp_cfg(net, r.chance(1, 2), *r.pick(&[0.0, 0.0, 0.0, 125.0, 1000.0]), KspCfg { yens, k, sim, term });
    if c.astar && r.chance(1, 6) {
        c.cfg_wf = Some(*r.pick(&[0.5, 1.0]));
    }
    c.summary = r.chance(3, 4);
    let mut q = plain_q(0, None);
    q.o = pick_origin(r, &c, &[]);
    q.d = Some(pick_target(r, &c, &[], q.o, 92));
    if r.chance(1, 3) {
        q.extra.insert("k".into(), json!(if yens { 1 } else { 1 + r.below(6) }));
    }
    (fam.to_string(), c, q, flags)
}

// ------------------------------------------------------------------------------------------ probe / main

fn probe(out: &Path) {
    let grid: Vec<(usize, usize)> = vec![(0, 1), (1, 0), (1, 2), (2, 1), (0, 8), (8, 0), (1, 9), (9, 1), (8, 9), (9, 8), (9, 10), (10, 9), (2, 10), (10, 2), (3, 3), (0, 1)];
    let net = simple_net(16, &grid);
    let mut cases: Vec<(&str, Cfg, Qry)> = vec![];
    let mut c = base_cfg(net.clone());
    c.route_fmt = "json".into();
    c.turn = Some(TurnCfg { headings: geo_headings(&net), table: full_turn_table(2.0), unit: "Seconds".into() });
    cases.push(("speed+turn json", c.clone(), plain_q(0, Some(10))));
    cases.push(("no destination", c.clone(), plain_q(0, None)));
    cases.push(("unreachable", c.clone(), plain_q(0, Some(5))));
    cases.push(("same", c.clone(), plain_q(0, Some(0))));
    let mut d = dist_cfg(net.clone(), "Kilometers", 0.0);
    d.astar = false;
    d.tree_fmt = Some("edge_id".into());
    cases.push(("distance dijkstra", d.clone(), plain_q(0, Some(10))));
    d.edge_oriented = true;
    cases.push(("edge oriented", d.clone(), plain_q(0, Some(11))));
    cases.push(("edge oriented same", d.clone(), plain_q(0, Some(0))));
    cases.push(("edge oriented adjacent", d.clone(), plain_q(0, Some(2))));
    d.input = Inp::Edge;
    cases.push(("edge matched", d.clone(), plain_q(4, Some(11))));
    let mut v = base_cfg(net.clone());
    v.input = Inp::Vertex;
    v.road_class = true;
    let mut q = plain_q(0, Some(10));
    q.classes = Some(vec![0]);
    q.user = vec![("distance".into(), Feat::Distance("Miles".into(), 5.0))];
    q.weights = Some(vec![("distance".into(), 1.0)]);
    cases.push(("vertex matched, classes, user features", v, q));
    for (i, (name, c, q)) in cases.iter().enumerate() {
        let dir = out.join(format!("p{}", i));
        match build(c, &dir) {
            Err(e) => println!("== {}: {}\n{}", name, e, std::fs::read_to_string(dir.join("compass.toml")).unwrap_or_default()),
            Ok(app) => {
                let qv = query_value(c, q);
                let r = run_query(&app, &qv);
                println!("== {}: query {}\n   status={} err={:?} ends={:?} path={:?} tree={} summary={:?} cost={:?} re={:?} ts={:?} malformed={:?}", name, qv, r.status, r.err, r.ends, r.path, r.tree.len(), r.summary, r.cost, r.route_edges, r.tree_size, r.malformed);
                println!("   raw={}", serde_json::to_string(&r.raw).unwrap().chars().take(1500).collect::<String>());
            }
        }
    }
}

fn add(cx: &mut Ctx, fam: &str, c: &Cfg, q: &Qry) {
    match cx.stream.as_str() {
        "app_walk" => add_walk(cx, fam, c, q),
        "app_sums" => add_sums(cx, fam, c, q),
        "app_frontier" => add_frontier(cx, fam, c, q),
        "app_ksp" => add_ksp(cx, fam, c, q),
        _ => add_reach(cx, fam, c, q),
    }
}

fn main() {
    silence_panics();
    let a = parse_args();
    if a.stream == "probe" {
        probe(&a.out);
        std::process::exit(0);
    }
    if !matches!(a.stream.as_str(), "app_walk" | "app_sums" | "app_reach" | "app_frontier" | "app_limits" | "app_ksp") {
        eprintln!("unknown stream {}", a.stream);
        std::process::exit(2);
    }
    let header = match a.stream.as_str() {
        "app_frontier" => FHEADER,
        "app_limits" => LHEADER,
        "app_ksp" => KHEADER,
        _ => HEADER,
    };
    let mut cx = Ctx { last_err: String::new(), st: Stream::new(&a.out, &a.stream, header, a.shards), work: a.out.join("apps"), stream: a.stream.clone() };
    if let Some(p) = &a.replay {
        cx.st.full = true;
        let v: Value = serde_json::from_str(&std::fs::read_to_string(p).unwrap()).unwrap();
        let cases: Vec<Value> = match v.get("cases") {
            Some(cs) => cs.as_array().unwrap().clone(),
            None => vec![v["case"].clone()],
        };
        for case in &cases {
            let c = cfg_from(&case["cfg"]);
            let q = qry_from(&case["qry"]);
            let fam = case.get("corpus").and_then(|x| x.as_str()).map(|x| format!("corpus:{}", x)).unwrap_or("replay".to_string());
            if a.stream == "app_limits" {
                let sweep = case.get("sweep").and_then(|x| x.as_array()).cloned();
                add_limits(&mut cx, &fam, &c, &q, sweep, &mut Rng::new(0));
            } else {
                add(&mut cx, &fam, &c, &q);
            }
        }
        cx.st.finish();
        let _ = std::fs::remove_dir_all(&cx.work);
        std::process::exit(0);
    }
    // ---- deterministic boundary families first
    let fams: Vec<(String, Cfg, Qry)> = match a.stream.as_str() {
        "app_walk" => converted_boundaries(true),
        "app_sums" => sums_shapes(),
        "app_frontier" => frontier_shapes(),
        "app_limits" => limits_shapes(),
        "app_ksp" => ksp_shapes(),
        _ => reach_shapes().into_iter().chain(converted_boundaries(false)).collect(),
    };
    let mut rng = Rng::new(a.seed);
    for (name, c, q) in &fams {
        if cx.st.next_id() >= a.n {
            break;
        }
        if a.stream == "app_limits" {
            let mut r = rng.fork();
            add_limits(&mut cx, name, c, q, None, &mut r);
        } else {
            add(&mut cx, name, c, q);
        }
    }
    // ---- random networks, a few queries each
    while cx.st.next_id() < a.n {
        let mut r = rng.fork();
        let (fam, c, q, flags) = match a.stream.as_str() {
            "app_frontier" => gen_frontier_case(&mut r, &cx.work),
            "app_limits" => gen_limits_case(&mut r),
            "app_ksp" => gen_ksp_case(&mut r),
            _ => gen_case(&mut r, &a.stream),
        };
        for f in &flags {
            cx.st.count(&format!("forced:{}", f));
        }
        if a.stream == "app_limits" {
            add_limits(&mut cx, &fam, &c, &q, None, &mut r);
        } else if a.stream == "app_frontier" && q.extra.contains_key("vehicle_parameters") && r.chance(1, 3) {
            // 2-4 queries in a row on one application instance: the generated query and variations of its vehicle (same numbers
            // in other units, scaled numbers), in either order
            let mut steps = vec![q.clone()];
            for _ in 0..1 + r.below(3) {
                let mut qk = steps.last().unwrap().clone();
                let scale = match r.below(3) { 0 => 1.0, 1 => 0.5, _ => 2.0 };
                if let Some(vp) = qk.extra.get_mut("vehicle_parameters").and_then(|x| x.as_object_mut()) {
                    for f in ["height", "width", "total_length", "trailer_length", "total_weight"] {
                        if let Some(arr) = vp.get_mut(f).and_then(|x| x.as_array_mut()) {
                            if arr.len() == 2 {
                                if let Some(x) = arr[0].as_f64() {
                                    arr[0] = json!(x * scale);
                                }
                                if r.chance(1, 2) {
                                    arr[1] = json!(if f == "total_weight" { WEIGHT_UNITS[r.below(3) as usize] } else { DIST_UNITS[r.below(5) as usize] });
                                }
                            }
                        }
                    }
                }
                steps.push(qk);
            }
            if r.chance(1, 2) {
                steps.reverse();
            }
            for k in 0..steps.len() {
                if cx.st.next_id() >= a.n {
                    break;
                }
                let mut qk = steps[k].clone();
                qk.prefix = steps[..k].to_vec();
                add(&mut cx, "random_sequence", &c, &qk);
            }
        } else if a.stream == "app_sums" && r.chance(1, 4) {
            // a sequence of 2-4 queries on one application instance; the first one overrides a part of the cost model
            let mut c = c.clone();
            let mut q0 = q.clone();
            let has_time = matches!(c.tm, Tm::Speed { .. });
            match r.below(if has_time { 3 } else { 2 }) {
                0 => q0.weights = Some(if has_time { vec![("distance".into(), 1.0), ("time".into(), 0.0)] } else { vec![("distance".into(), *r.pick(&[0.5, 3.0]))] }),
                1 => q0.vrates = Some(if has_time { vec![("distance".into(), VRate::Factor(*r.pick(&[0.125, 2.0]))), ("time".into(), VRate::Combined(vec![VRate::Offset(2.0), VRate::Factor(0.5)]))] } else { vec![("distance".into(), VRate::Combined(vec![VRate::Offset(10.0), VRate::Factor(*r.pick(&[0.25, 3.0]))]))] }),
                _ => {
                    q0.agg = Some("mul".into());
                    c.astar = false;
                }
            }
            let mut steps = vec![q0];
            let n = 2 + r.below(3) as usize;
            while steps.len() < n {
                let mut qk = plain_q(q.o, q.d);
                if r.chance(1, 2) {
                    qk.o = pick_origin(&mut r, &c, &[]);
                    qk.d = Some(pick_target(&mut r, &c, &[], qk.o, 96));
                }
                qk.user = q.user.clone();
                if steps.len() >= 2 && r.chance(1, 3) {
                    qk.weights = q.weights.clone().or(Some(c.weights.iter().map(|(n, w)| (n.clone(), w + 0.5)).collect()));
                }
                steps.push(qk);
            }
            for k in 0..steps.len() {
                if cx.st.next_id() >= a.n {
                    break;
                }
                let mut qk = steps[k].clone();
                qk.prefix = steps[..k].to_vec();
                add(&mut cx, "random_sequence", &c, &qk);
            }
        } else {
            add(&mut cx, &fam, &c, &q);
        }
    }
    cx.st.finish();
    let _ = std::fs::remove_dir_all(&cx.work);
    // abandoned watchdog threads (if any) die here
    std::process::exit(0);
}
