//! E2E harness: the APPLICATION GLUE.  Every case goes through a REAL `CompassApp` built offline from a generated
//! configuration (TOML text) and generated network files, and `CompassApp::run` on one JSON query:
//!   search_app.rs (run_vertex_oriented / run_edge_oriented dispatch, build_search_instance from config + query, query
//!   field parsing), input plugins (vertex / edge map matching), output plugins (traversal: route.path,
//!   route.traversal_summary, route.cost, tree; summary: route_edges, tree_size_count), error packaging.
//! The EXISTING verified checkers / specifications are evaluated in Coq on the facts extracted from the JSON response
//! (coq/Model/E2ERun.v, which only imports and calls them):
//!   app_walk   (C01)  SearchSpec.check_route / check_eroute / check_tree / check_etree through SR.check_outcome
//!   app_sums   (C03)  the exact-rational judge TR.judge (Model/TraversalRun.v) + the binary64 model TR.run (M line)
//!   app_reach  (C05)  Reach.reachb / pwalkb / reach_set / Bellman-Ford through RR.judge (Model/ReachRun.v)
//! Lines: I = canonical facts of the response; S = the verdict computed in Coq (prints the expected text when the
//! checkers accept, REJECT(..) otherwise); M only for app_sums (the traversal model re-walks the returned path bit for bit).
//! `probe` prints raw responses.  Private helpers only (appkit / searchkit are read-only): the configuration writer
//! (appkit's has no [state] section, turn delays, road-class frontier, unit choices) lives here.
use routee_compass::app::compass::compass_app::CompassApp;
use routee_compass::app::compass::config::compass_app_builder::CompassAppBuilder;
use routee_compass_core::algorithm::search::direction::Direction;
use routee_compass_core::algorithm::search::edge_traversal::EdgeTraversal;
use routee_compass_core::algorithm::search::search_instance::SearchInstance;
use routee_compass_core::model::network::{EdgeId, VertexId};
use routee_compass_core::model::unit::as_f64::AsF64;
use serde_json::{json, Map, Value};
use std::panic::AssertUnwindSafe;
use std::path::{Path, PathBuf};
use std::sync::Arc;
use verif_harness::appkit::{run_watchdog, write_network, Net, NetFiles, RunOutcome};
use verif_harness::searchkit as sk;
use verif_harness::*;

const DIST: [&str; 5] = ["Meters", "Kilometers", "Miles", "Inches", "Feet"];
const TIME: [&str; 4] = ["Hours", "Minutes", "Seconds", "Milliseconds"];
const SPEED: [&str; 3] = ["KilometersPerHour", "MilesPerHour", "MetersPerSecond"];
const TURNS: [&str; 8] = ["NoTurn", "SlightRight", "SlightLeft", "Right", "Left", "SharpRight", "SharpLeft", "UTurn"];
const WATCHDOG_MS: u64 = 20000;

fn snake(id: &str) -> String {
    if id == "UTurn" {
        return "u_turn".into();
    }
    let mut s = String::new();
    for (i, c) in id.chars().enumerate() {
        if c.is_ascii_uppercase() {
            if i > 0 {
                s.push('_');
            }
            s.push(c.to_ascii_lowercase());
        } else {
            s.push(c);
        }
    }
    s
}

// ------------------------------------------------------------------------------------------ case description

#[derive(Clone, Debug)]
enum Feat {
    Distance(String, f64),
    Time(String, f64),
    /// type+unit tag, initial
    Custom(String, f64),
}
#[derive(Clone, Debug)]
enum Tm {
    Dist(String),
    Speed { su: String, du: Option<String>, tu: Option<String> },
}
#[derive(Clone, Debug)]
struct TurnCfg {
    headings: Vec<(i64, Option<i64>)>,
    table: Vec<(String, f64)>,
    unit: String,
}
#[derive(Clone, Debug, PartialEq)]
enum Inp {
    None,
    Vertex,
    Edge,
}
#[derive(Clone, Debug)]
enum VRate {
    Raw,
    Factor(f64),
}
#[derive(Clone, Debug)]
struct Cfg {
    net: Net,
    astar: bool,
    cfg_wf: Option<f64>,
    tm: Tm,
    /// the [state] section (at most one entry: the order of several would depend on the config crate's map)
    state: Vec<(String, Feat)>,
    turn: Option<TurnCfg>,
    road_class: bool,
    edge_oriented: bool,
    input: Inp,
    route_fmt: String,
    tree_fmt: Option<String>,
    summary: bool,
    weights: Vec<(String, f64)>,
    vrates: Vec<(String, VRate)>,
}
#[derive(Clone, Debug)]
struct Qry {
    /// vertex ids or edge ids, by the configuration's orientation
    o: usize,
    d: Option<usize>,
    classes: Option<Vec<u8>>,
    weights: Option<Vec<(String, f64)>>,
    user: Vec<(String, Feat)>,
    wf: Option<f64>,
}

fn feat_json(f: &Feat) -> Value {
    match f {
        Feat::Distance(u, i) => json!({"k": "distance", "u": u, "i": i}),
        Feat::Time(u, i) => json!({"k": "time", "u": u, "i": i}),
        Feat::Custom(u, i) => json!({"k": "custom", "u": u, "i": i}),
    }
}
fn feat_from(v: &Value) -> Feat {
    let u = v["u"].as_str().unwrap().to_string();
    let i = v["i"].as_f64().unwrap();
    match v["k"].as_str().unwrap() {
        "distance" => Feat::Distance(u, i),
        "time" => Feat::Time(u, i),
        _ => Feat::Custom(u, i),
    }
}
fn feats_json(l: &[(String, Feat)]) -> Value {
    Value::Array(l.iter().map(|(n, f)| json!([n, feat_json(f)])).collect())
}
fn feats_from(v: &Value) -> Vec<(String, Feat)> {
    v.as_array().map(|a| a.iter().map(|x| (x[0].as_str().unwrap().to_string(), feat_from(&x[1]))).collect()).unwrap_or_default()
}
fn wts_json(l: &[(String, f64)]) -> Value {
    Value::Array(l.iter().map(|(n, w)| json!([n, w])).collect())
}
fn wts_from(v: &Value) -> Vec<(String, f64)> {
    v.as_array().map(|a| a.iter().map(|x| (x[0].as_str().unwrap().to_string(), x[1].as_f64().unwrap())).collect()).unwrap_or_default()
}
fn cfg_json(c: &Cfg) -> Value {
    json!({
        "net": c.net.to_json(), "astar": c.astar, "cfg_wf": c.cfg_wf,
        "tm": match &c.tm { Tm::Dist(u) => json!({"dist": u}), Tm::Speed { su, du, tu } => json!({"su": su, "du": du, "tu": tu}) },
        "state": feats_json(&c.state),
        "turn": match &c.turn { None => Value::Null, Some(t) => json!({"headings": t.headings, "table": wts_json(&t.table), "unit": t.unit}) },
        "road_class": c.road_class, "edge_oriented": c.edge_oriented,
        "input": match c.input { Inp::None => "none", Inp::Vertex => "vertex", Inp::Edge => "edge" },
        "route_fmt": c.route_fmt, "tree_fmt": c.tree_fmt, "summary": c.summary,
        "weights": wts_json(&c.weights),
        "vrates": Value::Array(c.vrates.iter().map(|(n, r)| match r { VRate::Raw => json!([n, null]), VRate::Factor(f) => json!([n, f]) }).collect()),
    })
}
fn cfg_from(v: &Value) -> Cfg {
    let s = |x: &Value| x.as_str().map(|y| y.to_string());
    Cfg {
        net: Net::from_json(&v["net"]),
        astar: v["astar"].as_bool().unwrap(),
        cfg_wf: v["cfg_wf"].as_f64(),
        tm: if let Some(u) = v["tm"].get("dist") { Tm::Dist(s(u).unwrap()) } else { Tm::Speed { su: s(&v["tm"]["su"]).unwrap(), du: s(&v["tm"]["du"]), tu: s(&v["tm"]["tu"]) } },
        state: feats_from(&v["state"]),
        turn: if v["turn"].is_null() {
            None
        } else {
            Some(TurnCfg {
                headings: v["turn"]["headings"].as_array().unwrap().iter().map(|h| (h[0].as_i64().unwrap(), h[1].as_i64())).collect(),
                table: wts_from(&v["turn"]["table"]),
                unit: s(&v["turn"]["unit"]).unwrap(),
            })
        },
        road_class: v["road_class"].as_bool().unwrap(),
        edge_oriented: v["edge_oriented"].as_bool().unwrap(),
        input: match v["input"].as_str().unwrap() {
            "vertex" => Inp::Vertex,
            "edge" => Inp::Edge,
            _ => Inp::None,
        },
        route_fmt: s(&v["route_fmt"]).unwrap(),
        tree_fmt: s(&v["tree_fmt"]),
        summary: v["summary"].as_bool().unwrap(),
        weights: wts_from(&v["weights"]),
        vrates: v["vrates"].as_array().unwrap().iter().map(|x| (x[0].as_str().unwrap().to_string(), match x[1].as_f64() { None => VRate::Raw, Some(f) => VRate::Factor(f) })).collect(),
    }
}
fn qry_json(q: &Qry) -> Value {
    json!({"o": q.o, "d": q.d, "classes": q.classes, "weights": q.weights.as_ref().map(|w| wts_json(w)), "user": feats_json(&q.user), "wf": q.wf})
}
fn qry_from(v: &Value) -> Qry {
    Qry {
        o: v["o"].as_u64().unwrap() as usize,
        d: v["d"].as_u64().map(|x| x as usize),
        classes: v["classes"].as_array().map(|a| a.iter().map(|x| x.as_u64().unwrap() as u8).collect()),
        weights: if v["weights"].is_null() { None } else { Some(wts_from(&v["weights"])) },
        user: feats_from(&v["user"]),
        wf: v["wf"].as_f64(),
    }
}

// ------------------------------------------------------------------------------------------ configuration text

/// a state feature as the JSON the repository's own serde definition accepts
fn feature_value(f: &Feat) -> Value {
    match f {
        Feat::Distance(u, i) => json!({"distance_unit": snake(u), "initial": i}),
        Feat::Time(u, i) => json!({"time_unit": snake(u), "initial": i}),
        Feat::Custom(t, i) => json!({"type": t, "unit": t, "format": {"type": "floating_point", "initial": i}}),
    }
}
fn features_value(l: &[(String, Feat)]) -> Value {
    let mut m = Map::new();
    for (n, f) in l {
        m.insert(n.clone(), feature_value(f));
    }
    Value::Object(m)
}

fn toml_scalar(v: &Value) -> String {
    match v {
        Value::String(s) => format!("\"{}\"", s.replace('\\', "\\\\").replace('"', "\\\"")),
        Value::Number(n) => {
            if n.is_f64() {
                format!("{:?}", n.as_f64().unwrap())
            } else {
                n.to_string()
            }
        }
        Value::Bool(b) => b.to_string(),
        Value::Array(a) => format!("[{}]", a.iter().map(toml_scalar).collect::<Vec<_>>().join(", ")),
        Value::Object(m) => format!("{{ {} }}", m.iter().map(|(k, x)| format!("{} = {}", k, toml_scalar(x))).collect::<Vec<_>>().join(", ")),
        Value::Null => "\"\"".into(),
    }
}
/// a JSON object as TOML text: scalars / arrays / `inline` keys first, then one [table] per object-valued key
fn toml_table(path: &str, m: &Map<String, Value>, inline: &[&str], out: &mut String) {
    for (k, v) in m {
        if !v.is_object() || inline.contains(&k.as_str()) {
            out.push_str(&format!("{} = {}\n", k, toml_scalar(v)));
        }
    }
    for (k, v) in m {
        if let (Value::Object(sub), false) = (v, inline.contains(&k.as_str())) {
            let p = if path.is_empty() { k.clone() } else { format!("{}.{}", path, k) };
            out.push_str(&format!("[{}]\n", p));
            toml_table(&p, sub, inline, out);
        }
    }
}

struct Files {
    net: NetFiles,
    headings: String,
}
fn write_files(c: &Cfg, dir: &Path) -> Files {
    let net = write_network(dir, &c.net);
    let p = dir.join("headings.csv");
    if let Some(t) = &c.turn {
        let mut s = String::from("arrival_heading,departure_heading\n");
        for (a, d) in &t.headings {
            s += &format!("{},{}\n", a, d.map(|x| x.to_string()).unwrap_or_default());
        }
        std::fs::write(&p, s).unwrap();
    }
    Files { net, headings: p.to_str().unwrap().to_string() }
}

fn config_value(c: &Cfg, f: &Files) -> Value {
    let mut alg = json!({"type": if c.astar { "a*" } else { "dijkstra" }});
    if let (true, Some(w)) = (c.astar, c.cfg_wf) {
        alg["weight_factor"] = json!(w);
    }
    let traversal = match &c.tm {
        Tm::Dist(u) => json!({"type": "distance", "distance_unit": snake(u)}),
        Tm::Speed { su, du, tu } => {
            let mut t = json!({"type": "speed_table", "speed_table_input_file": f.net.speeds, "speed_unit": snake(su)});
            if let Some(u) = du {
                t["distance_unit"] = json!(snake(u));
            }
            if let Some(u) = tu {
                t["time_unit"] = json!(snake(u));
            }
            t
        }
    };
    let access = match &c.turn {
        None => json!({"type": "no_access_model"}),
        Some(t) => {
            let mut table = Map::new();
            for (k, v) in &t.table {
                table.insert(snake(k), json!(v));
            }
            json!({"type": "turn_delay", "edge_heading_input_file": f.headings, "time_feature_name": "time",
                   "turn_delay_model": {"type": "tabular_discrete", "time_unit": snake(&t.unit), "table": table}})
        }
    };
    let mut weights = Map::new();
    for (n, w) in &c.weights {
        weights.insert(n.clone(), json!(w));
    }
    let mut vrates = Map::new();
    for (n, r) in &c.vrates {
        vrates.insert(n.clone(), match r {
            VRate::Raw => json!({"type": "raw"}),
            VRate::Factor(x) => json!({"type": "factor", "factor": x}),
        });
    }
    let frontier = if c.road_class { json!({"type": "road_class", "road_class_input_file": f.net.road_classes}) } else { json!({"type": "no_restriction"}) };
    let inputs: Vec<Value> = match c.input {
        Inp::None => vec![],
        Inp::Vertex => vec![json!({"type": "vertex_rtree", "vertices_input_file": f.net.vertices})],
        Inp::Edge => vec![json!({"type": "edge_rtree", "geometry_input_file": f.net.geometries})],
    };
    let mut outputs: Vec<Value> = vec![];
    if c.summary {
        outputs.push(json!({"type": "summary"}));
    }
    let mut tr = json!({"type": "traversal", "geometry_input_file": f.net.geometries, "route": c.route_fmt});
    if let Some(t) = &c.tree_fmt {
        tr["tree"] = json!(t);
    }
    outputs.push(tr);
    let mut top = Map::new();
    top.insert("parallelism".into(), json!(1));
    top.insert("search_orientation".into(), json!(if c.edge_oriented { "edge" } else { "vertex" }));
    top.insert("response_persistence_policy".into(), json!("persist_response_in_memory"));
    top.insert("response_output_policy".into(), json!({"type": "none"}));
    top.insert("graph".into(), json!({"edge_list_input_file": f.net.edges, "vertex_list_input_file": f.net.vertices, "verbose": false}));
    top.insert("algorithm".into(), alg);
    if !c.state.is_empty() {
        top.insert("state".into(), features_value(&c.state));
    }
    top.insert("traversal".into(), traversal);
    top.insert("access".into(), access);
    top.insert("cost".into(), json!({"cost_aggregation": "sum", "weights": weights, "vehicle_rates": vrates}));
    top.insert("frontier".into(), frontier);
    top.insert("plugin".into(), json!({"input_plugins": inputs, "output_plugins": outputs}));
    Value::Object(top)
}
fn config_toml(c: &Cfg, f: &Files) -> String {
    let v = config_value(c, f);
    let mut out = String::new();
    // every feature of [state] and every vehicle rate is written as an inline table
    let mut inline: Vec<String> = c.state.iter().map(|(n, _)| n.clone()).collect();
    inline.push("response_output_policy".into());
    let inl: Vec<&str> = inline.iter().map(|s| s.as_str()).collect();
    toml_table("", v.as_object().unwrap(), &inl, &mut out);
    out
}

fn build(c: &Cfg, dir: &Path) -> Result<Arc<CompassApp>, String> {
    std::fs::create_dir_all(dir).map_err(|e| e.to_string())?;
    let files = write_files(c, dir);
    let toml = config_toml(c, &files);
    let conf = dir.join("compass.toml");
    std::fs::write(&conf, &toml).map_err(|e| e.to_string())?;
    let conf_s = conf.to_str().unwrap().to_string();
    match catch(move || CompassApp::try_from_config_toml_string(toml, conf_s, &CompassAppBuilder::default())) {
        Ok(Ok(app)) => Ok(Arc::new(app)),
        Ok(Err(e)) => Err(format!("build error: {}", e)),
        Err(p) => Err(format!("build panic: {}", p)),
    }
}

// ------------------------------------------------------------------------------------------ query text

fn seg_point(c: &Cfg, e: usize) -> (f64, f64) {
    let (s, d, _, _, _) = c.net.edges[e];
    let (a, b) = (c.net.coords[s], c.net.coords[d]);
    (a.0 + 0.375 * (b.0 - a.0), a.1 + 0.375 * (b.1 - a.1))
}
fn query_value(c: &Cfg, q: &Qry) -> Value {
    let mut m = Map::new();
    match c.input {
        Inp::None => {
            let (ko, kd) = if c.edge_oriented { ("origin_edge", "destination_edge") } else { ("origin_vertex", "destination_vertex") };
            m.insert(ko.into(), json!(q.o));
            if let Some(d) = q.d {
                m.insert(kd.into(), json!(d));
            }
        }
        Inp::Vertex | Inp::Edge => {
            let pt = |i: usize| -> Option<(f64, f64)> {
                if c.input == Inp::Vertex {
                    c.net.coords.get(i).map(|p| (p.0 + 0.0005, p.1 - 0.00025))
                } else if i < c.net.edges.len() {
                    Some(seg_point(c, i))
                } else {
                    None
                }
            };
            if let Some(p) = pt(q.o) {
                m.insert("origin_x".into(), json!(p.0));
                m.insert("origin_y".into(), json!(p.1));
            }
            if let Some(p) = q.d.and_then(pt) {
                m.insert("destination_x".into(), json!(p.0));
                m.insert("destination_y".into(), json!(p.1));
            }
        }
    }
    if let Some(cl) = &q.classes {
        m.insert("road_classes".into(), json!(cl));
    }
    if let Some(w) = &q.weights {
        let mut wm = Map::new();
        for (n, x) in w {
            wm.insert(n.clone(), json!(x));
        }
        m.insert("weights".into(), Value::Object(wm));
    }
    if !q.user.is_empty() {
        m.insert("state_features".into(), features_value(&q.user));
    }
    if let Some(w) = q.wf {
        m.insert("weight_factor".into(), json!(w));
    }
    Value::Object(m)
}

// ------------------------------------------------------------------------------------------ the response

#[derive(Clone, Debug, Default)]
struct Resp {
    /// Ok | nopath | terminated | err | Panic | Hang | RunErr | bad
    status: String,
    err: String,
    /// the two ids named by a no-path error
    ends: Option<(usize, usize)>,
    has_route: bool,
    path: Vec<usize>,
    recs: Vec<EdgeTraversal>,
    has_tree: bool,
    /// (terminal_vertex when the format shows it, edge id, result_state when shown)
    tree: Vec<(Option<usize>, usize, Vec<f64>)>,
    summary: Vec<(String, f64)>,
    cost: Vec<(String, f64)>,
    route_edges: Option<u64>,
    tree_size: Option<u64>,
    req: Value,
    malformed: Vec<String>,
    raw: Value,
}
fn kv_f64(v: &Value) -> Vec<(String, f64)> {
    let mut kv: Vec<(String, f64)> = v.as_object().map(|m| m.iter().map(|(k, x)| (k.clone(), x.as_f64().unwrap_or(f64::NAN))).collect()).unwrap_or_default();
    kv.sort_by(|a, b| a.0.as_bytes().cmp(b.0.as_bytes()));
    kv
}
fn two_numbers(s: &str) -> Option<(usize, usize)> {
    let nums: Vec<usize> = s.split(|c: char| !c.is_ascii_digit()).filter(|x| !x.is_empty()).filter_map(|x| x.parse().ok()).collect();
    if nums.len() == 2 {
        Some((nums[0], nums[1]))
    } else {
        None
    }
}
fn parse_response(out: &RunOutcome) -> Resp {
    let mut r = Resp::default();
    let v = match out {
        RunOutcome::Hang => {
            r.status = "Hang".into();
            return r;
        }
        RunOutcome::Panic(p) => {
            r.status = "Panic".into();
            r.err = p.clone();
            return r;
        }
        RunOutcome::Err(e) => {
            r.status = "RunErr".into();
            r.err = e.clone();
            return r;
        }
        RunOutcome::Ok(vs) => {
            if vs.len() != 1 {
                r.status = "bad".into();
                r.err = format!("{} responses for one query", vs.len());
                return r;
            }
            vs[0].clone()
        }
    };
    r.raw = v.clone();
    r.req = v.get("request").cloned().unwrap_or(Value::Null);
    if !v.is_object() || r.req.is_null() {
        r.status = "bad".into();
        return r;
    }
    if let Some(e) = v.get("error") {
        let text = e.as_str().unwrap_or("").to_string();
        r.status = if text.starts_with("no path exists between") {
            r.ends = two_numbers(&text);
            "nopath".into()
        } else if text.starts_with("query terminated") || text.contains("QueryTerminated") {
            "terminated".into()
        } else {
            "err".into()
        };
        r.err = text;
        if v.get("route").is_some() || v.get("tree").is_some() {
            r.malformed.push("error response with route/tree".into());
        }
        return r;
    }
    r.status = "Ok".into();
    if let Some(route) = v.get("route") {
        if route.is_object() {
            r.has_route = true;
            match route.get("path").and_then(|p| p.as_array()) {
                None => r.malformed.push("route without path".into()),
                Some(p) => {
                    for x in p {
                        if let Some(e) = x.as_u64() {
                            r.path.push(e as usize);
                        } else if x.is_object() {
                            match serde_json::from_value::<EdgeTraversal>(x.clone()) {
                                Ok(et) => {
                                    r.path.push(et.edge_id.0);
                                    r.recs.push(et);
                                }
                                Err(_) => r.malformed.push("path record".into()),
                            }
                        } else {
                            r.malformed.push("path element".into());
                        }
                    }
                }
            }
            r.summary = kv_f64(route.get("traversal_summary").unwrap_or(&Value::Null));
            r.cost = kv_f64(route.get("cost").unwrap_or(&Value::Null));
        } else if !route.is_null() {
            r.malformed.push("route is neither object nor null".into());
        }
    }
    if let Some(tree) = v.get("tree") {
        if let Some(a) = tree.as_array() {
            r.has_tree = true;
            for x in a {
                if let Some(e) = x.as_u64() {
                    r.tree.push((None, e as usize, vec![]));
                } else if x.is_object() {
                    let tv = x["terminal_vertex"].as_u64().map(|y| y as usize);
                    let e = x["edge_traversal"]["edge_id"].as_u64().map(|y| y as usize);
                    let st: Vec<f64> = x["edge_traversal"]["result_state"].as_array().map(|s| s.iter().map(|y| y.as_f64().unwrap_or(f64::NAN)).collect()).unwrap_or_default();
                    match (tv, e) {
                        (Some(tv), Some(e)) => r.tree.push((Some(tv), e, st)),
                        _ => r.malformed.push("tree branch".into()),
                    }
                } else {
                    r.malformed.push("tree element".into());
                }
            }
        } else if !tree.is_null() {
            r.malformed.push("tree is neither array nor null".into());
        }
    }
    r.route_edges = v.get("route_edges").and_then(|x| x.as_u64());
    r.tree_size = v.get("tree_size_count").and_then(|x| x.as_u64());
    r
}

fn run_query(app: &Arc<CompassApp>, query: &Value) -> Resp {
    parse_response(&run_watchdog(app, vec![query.clone()], None, WATCHDOG_MS))
}


// ------------------------------------------------------------------------------------------ networks

/// vertex i sits on cell i of an 8 x 8 grid with 1/8 degree spacing (exact in f32)
fn cell(i: usize) -> (f64, f64) {
    (-105.0 + 0.125 * (i % 8) as f64, 39.0 + 0.125 * (i / 8) as f64)
}
fn hav_m(a: (f64, f64), b: (f64, f64)) -> f64 {
    let (lat1, lat2) = (a.1.to_radians(), b.1.to_radians());
    let (dlat, dlon) = (lat2 - lat1, (b.0 - a.0).to_radians());
    let h = (dlat / 2.0).sin().powi(2) + (dlon / 2.0).sin().powi(2) * lat1.cos() * lat2.cos();
    6_371_000.0 * 2.0 * h.sqrt().asin()
}
const SPEEDS: [f64; 8] = [15.0, 25.0, 37.5, 40.0, 55.0, 62.5, 90.0, 120.0];
/// a network over given coordinates: length = great-circle distance * factor (whole meters, >= 1), so that with
/// factor >= 1.02 the haversine estimate of the traversal models is consistent; self loops get 400 m
fn net_of(coords: Vec<(f64, f64)>, edges: &[(usize, usize)], factor: impl Fn(usize) -> f64, speed: impl Fn(usize) -> f64, class: impl Fn(usize) -> u8) -> Net {
    let es = edges
        .iter()
        .enumerate()
        .map(|(i, (s, d))| {
            let h = if s == d || *s >= coords.len() || *d >= coords.len() { 400.0 } else { hav_m(coords[*s], coords[*d]) };
            (*s, *d, (h * factor(i)).ceil().max(1.0), speed(i), class(i))
        })
        .collect();
    Net { coords, edges: es }
}
fn simple_net(n: usize, edges: &[(usize, usize)]) -> Net {
    net_of((0..n).map(cell).collect(), edges, |i| 1.05 + 0.1 * (i % 4) as f64, |i| SPEEDS[i % SPEEDS.len()], |_| 0)
}
/// random network: searchkit's graph generator (n 3..40, dense vertex, forced parallel edge / self loop / isolated
/// vertex / unreachable part) on distinct random grid cells
fn gen_net(r: &mut Rng, consistent: bool) -> (Net, Vec<&'static str>) {
    let (n, edges, flags) = sk::gen_graph(r);
    let mut cells: Vec<usize> = (0..64).collect();
    r.shuffle(&mut cells);
    let coords: Vec<(f64, f64)> = cells[..n].iter().map(|c| cell(*c)).collect();
    let fs: Vec<f64> = edges.iter().map(|_| if consistent { 1.02 + r.below(150) as f64 / 100.0 } else { 0.3 + r.below(250) as f64 / 100.0 }).collect();
    let sp: Vec<f64> = edges.iter().map(|_| *r.pick(&SPEEDS)).collect();
    let cl: Vec<u8> = edges.iter().map(|_| r.below(4) as u8).collect();
    (net_of(coords, &edges, |i| fs[i], |i| sp[i], |i| cl[i]), flags)
}

fn base_cfg(net: Net) -> Cfg {
    Cfg {
        net,
        astar: true,
        cfg_wf: None,
        tm: Tm::Speed { su: "KilometersPerHour".into(), du: None, tu: None },
        state: vec![],
        turn: None,
        road_class: false,
        edge_oriented: false,
        input: Inp::None,
        route_fmt: "edge_id".into(),
        tree_fmt: Some("json".into()),
        summary: true,
        weights: vec![("distance".into(), 0.0), ("time".into(), 1.0)],
        vrates: vec![("distance".into(), VRate::Raw), ("time".into(), VRate::Raw)],
    }
}
fn dist_cfg(net: Net, unit: &str, initial: f64) -> Cfg {
    let mut c = base_cfg(net);
    c.tm = Tm::Dist(unit.into());
    c.state = vec![("distance".into(), Feat::Distance(unit.into(), initial))];
    c.weights = vec![("distance".into(), 1.0)];
    c.vrates = vec![("distance".into(), VRate::Raw)];
    c
}
fn plain_q(o: usize, d: Option<usize>) -> Qry {
    Qry { o, d, classes: None, weights: None, user: vec![], wf: None }
}
fn full_turn_table(base: f64) -> Vec<(String, f64)> {
    TURNS.iter().enumerate().map(|(i, t)| (t.to_string(), if i == 0 { 0.0 } else { base * i as f64 })).collect()
}
/// headings from the geometry (whole degrees clockwise from north), self loops 0
fn geo_headings(net: &Net) -> Vec<(i64, Option<i64>)> {
    net.edges
        .iter()
        .map(|(s, d, _, _, _)| {
            if s == d || *s >= net.coords.len() || *d >= net.coords.len() {
                return (0, None);
            }
            let (a, b) = (net.coords[*s], net.coords[*d]);
            let ang = ((b.0 - a.0) * (a.1.to_radians().cos())).atan2(b.1 - a.1).to_degrees();
            let h = ((ang.round() as i64) % 360 + 360) % 360;
            (h, None)
        })
        .collect()
}


// ------------------------------------------------------------------------------------------ what the query means

const HEADER: &str = "From Coq Require Import ZArith QArith List String Floats.\nFrom RC Require Import Base.Show Base.Num Base.Res Model.Units Model.StateOps Model.Traversal Model.Cost Model.TraversalRun Model.Search Model.SearchRun Model.E2ERun.\nImport ListNotations.\nOpen Scope nat_scope.";

struct Sem {
    o: usize,
    d: Option<usize>,
    /// "ok" or why the ids written by the map-matching plugin are not the nearest elements
    mm: String,
}
fn seg_dist(p: (f64, f64), a: (f64, f64), b: (f64, f64)) -> f64 {
    let (vx, vy) = (b.0 - a.0, b.1 - a.1);
    let l2 = vx * vx + vy * vy;
    let t = if l2 == 0.0 { 0.0 } else { (((p.0 - a.0) * vx + (p.1 - a.1) * vy) / l2).clamp(0.0, 1.0) };
    let (cx, cy) = (a.0 + t * vx, a.1 + t * vy);
    ((p.0 - cx).powi(2) + (p.1 - cy).powi(2)).sqrt()
}
fn semantics(c: &Cfg, q: &Qry, r: &Resp) -> Sem {
    match c.input {
        Inp::None => Sem { o: q.o, d: q.d, mm: "ok".into() },
        Inp::Vertex => {
            let eo = r.req.get("origin_vertex").and_then(|x| x.as_u64()).map(|x| x as usize);
            let ed = r.req.get("destination_vertex").and_then(|x| x.as_u64()).map(|x| x as usize);
            let ok = eo == Some(q.o) && ed == q.d;
            Sem { o: q.o, d: q.d, mm: if ok { "ok".into() } else { format!("matched({:?},{:?})", eo, ed) } }
        }
        Inp::Edge => {
            let eo = r.req.get("origin_edge").and_then(|x| x.as_u64()).map(|x| x as usize);
            let ed = r.req.get("destination_edge").and_then(|x| x.as_u64()).map(|x| x as usize);
            let nearest = |want: usize, got: Option<usize>| -> bool {
                let (Some(g), true) = (got, want < c.net.edges.len()) else { return false };
                if g >= c.net.edges.len() {
                    return false;
                }
                let p = seg_point(c, want);
                let dist = |e: usize| seg_dist(p, c.net.coords[c.net.edges[e].0], c.net.coords[c.net.edges[e].1]);
                let best = (0..c.net.edges.len()).map(dist).fold(f64::INFINITY, f64::min);
                dist(g) <= best + 1e-6
            };
            let ok = nearest(q.o, eo) && match q.d {
                None => ed.is_none(),
                Some(d) => nearest(d, ed),
            };
            Sem { o: eo.unwrap_or(q.o), d: if q.d.is_some() { ed.or(q.d) } else { None }, mm: if ok { "ok".into() } else { format!("matched({:?},{:?})", eo, ed) } }
        }
    }
}
/// the ids a no-path error must name
fn nopath_ends(c: &Cfg, s: &Sem) -> Option<(usize, usize)> {
    let d = s.d?;
    if c.edge_oriented {
        let e1 = c.net.edges.get(s.o)?;
        let e2 = c.net.edges.get(d)?;
        Some((e1.1, e2.0))
    } else {
        Some((s.o, d))
    }
}
fn coq_edges(c: &Cfg) -> String {
    coq_list(&c.net.edges, |(s, d, _, _, _)| format!("({}, {})", s, d))
}
fn nat_opt(x: &Option<usize>) -> String {
    coq_opt(x, |v| v.to_string())
}
fn forbidden(c: &Cfg, q: &Qry) -> Vec<usize> {
    match (&q.classes, c.road_class) {
        (Some(cl), true) => (0..c.net.edges.len()).filter(|e| !cl.contains(&c.net.edges[*e].4)).collect(),
        _ => vec![],
    }
}
/// vertices reachable from `from` over permitted edges
fn bfs(c: &Cfg, forbid: &[usize], from: usize) -> Vec<bool> {
    let n = c.net.coords.len();
    let mut seen = vec![false; n];
    if from >= n {
        return seen;
    }
    seen[from] = true;
    let mut stack = vec![from];
    while let Some(v) = stack.pop() {
        for (i, (s, d, _, _, _)) in c.net.edges.iter().enumerate() {
            if *s == v && *d < n && !seen[*d] && !forbid.contains(&i) {
                seen[*d] = true;
                stack.push(*d);
            }
        }
    }
    seen
}

struct Ctx {
    st: Stream,
    work: PathBuf,
    stream: String,
}
fn desc(cx: &Ctx, id: usize, fam: &str, c: &Cfg, q: &Qry, short: &str) -> Value {
    json!({"id": id, "family": fam, "stream": cx.stream, "cfg": cfg_json(c), "qry": qry_json(q), "query": query_value(c, q),
           "impl_short": short.chars().take(240).collect::<String>()})
}
fn common_hist(st: &mut Stream, fam: &str, c: &Cfg, q: &Qry, r: &Resp) {
    st.count(&format!("family:{}", fam.split('#').next().unwrap_or(fam)));
    st.count(&format!("status:{}", r.status));
    st.count(&format!("orient:{}", if c.edge_oriented { "edge" } else { "vertex" }));
    st.count(&format!("alg:{}", if c.astar { "a*" } else { "dijkstra" }));
    st.count(&format!("input:{:?}", c.input));
    st.count(&format!("traversal:{}", match c.tm { Tm::Dist(_) => "distance", Tm::Speed { .. } => "speed_table" }));
    st.count(&format!("access:{}", if c.turn.is_some() { "turn_delay" } else { "none" }));
    st.count(&format!("frontier:{}", if c.road_class { if q.classes.is_some() { "road_class+query" } else { "road_class" } } else { "none" }));
    st.count(&format!("route_fmt:{}", c.route_fmt));
    st.count(&format!("tree_fmt:{}", c.tree_fmt.clone().unwrap_or("none".into())));
    st.count(&format!("destination:{}", if q.d.is_some() { "some" } else { "none" }));
    st.count(&format!("n:{}", (c.net.coords.len() + 7) / 8 * 8));
    st.count(&format!("route_edges:{}", if r.path.len() > 6 { "7+".to_string() } else { r.path.len().to_string() }));
    if q.weights.is_some() {
        st.count("query:weights");
    }
    if !q.user.is_empty() {
        st.count("query:state_features");
    }
    if q.wf.is_some() {
        st.count("query:weight_factor");
    }
}
fn build_failed(cx: &mut Ctx, fam: &str, c: &Cfg, q: &Qry, e: &str) {
    let id = cx.st.next_id();
    cx.st.count("BUILD-FAILED");
    let d = desc(cx, id, fam, c, q, e);
    let mut terms = vec![format!("E2E.line_echo \"S\" {}%Z \"the generated configuration builds\"", id)];
    if cx.stream == "app_sums" {
        terms.push(format!("E2E.line_echo \"M\" {}%Z \"the generated configuration builds\"", id));
    }
    cx.st.case(terms, vec![format!("I {} BUILD-FAILED {}", id, e.replace('\n', " "))], d);
}

// ------------------------------------------------------------------------------------------ the direct core run

fn path_cost(si: &SearchInstance, es: &[usize]) -> Option<f64> {
    let mut st = si.state_model.initial_state().ok()?;
    let mut prev = None;
    let mut sum = 0.0;
    for e in es {
        let et = EdgeTraversal::forward_traversal(EdgeId(*e), prev, &st, si).ok()?;
        sum += et.total_cost().as_f64();
        st = et.result_state.clone();
        prev = Some(EdgeId(*e));
    }
    Some(sum)
}
/// the same query through the core API directly (searchkit style): SearchApp::build_search_instance, then
/// SearchAlgorithm::run_vertex_oriented / run_edge_oriented with the ids the query means.  "agree" = same status and
/// same path, or a different path of the same cost (the queue's choice among equal priorities is unspecified).
fn core_compare(app: &Arc<CompassApp>, c: &Cfg, s: &Sem, r: &Resp, query: &Value) -> String {
    if !matches!(r.status.as_str(), "Ok" | "nopath" | "terminated" | "err") {
        return "n/a".into();
    }
    let req = if r.req.is_object() { r.req.clone() } else { query.clone() };
    let app2 = app.clone();
    let (o, d, eo) = (s.o, s.d, c.edge_oriented);
    let res = catch(AssertUnwindSafe(move || {
        let si = app2.search_app.build_search_instance(&req).map_err(|e| sk::classify_error(&e))?;
        let alg = &app2.search_app.search_algorithm;
        let out = if eo {
            alg.run_edge_oriented(EdgeId(o), d.map(EdgeId), &req, &Direction::Forward, &si)
        } else {
            alg.run_vertex_oriented(VertexId(o), d.map(VertexId), &req, &Direction::Forward, &si)
        };
        match out {
            Err(e) => Err(sk::classify_error(&e)),
            Ok(x) => Ok((x.routes.first().map(|rt| rt.iter().map(|et| et.edge_id.0).collect::<Vec<usize>>()), x.trees.iter().map(|t| t.len()).sum::<usize>(), si)),
        }
    }));
    match res {
        Err(_) => "differ:core-panic".into(),
        Ok(Err(cls)) => {
            let short = if cls.starts_with("err") { "err" } else { cls.as_str() };
            // an empty route of a successful search is an output-plugin error in the application
            if r.status == short {
                "agree".into()
            } else {
                format!("differ:core={}", cls)
            }
        }
        Ok(Ok((route, tree_size, si))) => {
            if r.status != "Ok" {
                // origin = destination: the core returns an empty route, the traversal plugin refuses it
                if route.as_ref().map(|p| p.is_empty()).unwrap_or(false) && r.status == "err" {
                    return "agree".into();
                }
                return format!("differ:core=Ok app={}", r.status);
            }
            match (route, r.has_route) {
                (None, false) => {
                    if r.has_tree && r.tree.len() != tree_size {
                        format!("differ:tree-size core={} app={}", tree_size, r.tree.len())
                    } else {
                        "agree".into()
                    }
                }
                (Some(p), true) => {
                    if p == r.path {
                        return "agree".into();
                    }
                    let mid = |x: &[usize]| -> Vec<usize> {
                        if eo && x.len() >= 3 { x[1..x.len() - 1].to_vec() } else { x.to_vec() }
                    };
                    match (path_cost(&si, &mid(&p)), path_cost(&si, &mid(&r.path))) {
                        (Some(a), Some(b)) if (a - b).abs() <= 1e-9 * a.abs().max(b.abs()) => "agree".into(),
                        _ => format!("differ:path core={:?}", p),
                    }
                }
                (a, b) => format!("differ:route core={} app={}", a.is_some(), b),
            }
        }
    }
}

// ------------------------------------------------------------------------------------------ app_walk

fn status_text(c: &Cfg, s: &Sem, r: &Resp, expected: bool) -> String {
    if r.status == "nopath" {
        let ends = if expected { nopath_ends(c, s) } else { r.ends };
        return match ends {
            Some((a, b)) => format!("nopath({},{})", a, b),
            None => "nopath(?)".into(),
        };
    }
    r.status.clone()
}
fn add_walk(cx: &mut Ctx, fam: &str, c: &Cfg, q: &Qry) {
    let id = cx.st.next_id();
    let app = match build(c, &cx.work.join(format!("c{}", id))) {
        Ok(a) => a,
        Err(e) => return build_failed(cx, fam, c, q, &e),
    };
    let query = query_value(c, q);
    let r = run_query(&app, &query);
    let s = semantics(c, q, &r);
    let core = core_compare(&app, c, &s, &r, &query);
    let mut tree: Vec<(Option<usize>, usize)> = r.tree.iter().map(|(p, e, _)| (*p, *e)).collect();
    tree.sort_by_key(|x| x.1);
    let counts = match (r.route_edges, r.tree_size) {
        (Some(a), Some(b)) => Some((a as usize, b as usize)),
        _ => None,
    };
    let shape = if !r.malformed.is_empty() {
        format!("bad:{}", r.malformed.join("+"))
    } else if matches!(r.status.as_str(), "RunErr" | "bad") {
        format!("bad:{}", r.err)
    } else if c.summary && r.status == "Ok" && counts.is_none() {
        "bad:summary counters missing".into()
    } else if r.status == "Ok" && c.tree_fmt.is_some() && !r.has_tree && !(c.edge_oriented && s.d == Some(s.o)) {
        "bad:no tree in the response".into()
    } else {
        "ok".into()
    };
    let body = format!(
        "path={} tree={} counts={}",
        if r.has_route { show_list(&r.path, |e| e.to_string()) } else { "None".into() },
        if r.has_tree { show_list(&tree, |(p, e)| format!("({},{})", p.map(|x| x.to_string()).unwrap_or("_".into()), e)) } else { "None".into() },
        show_opt(&counts, |(a, b)| format!("{},{}", a, b))
    );
    let payload = format!("{} {} core={} mm={} shape={}", status_text(c, &s, &r, false), body, core, s.mm, shape);
    let expected = format!("{} {} core=agree mm=ok shape=ok", status_text(c, &s, &r, true), body);
    let term = format!(
        "E2E.line_walk {}%Z {} {} {} {} {} {} {} {} {} {}",
        id,
        c.net.coords.len(),
        coq_edges(c),
        coq_bool(c.edge_oriented),
        s.o,
        nat_opt(&s.d),
        coq_string(&r.status),
        if r.has_tree { format!("[{}]", coq_list(&tree, |(p, e)| format!("({}, {})", nat_opt(p), e))) } else { "[]".into() },
        if r.has_route { format!("[{}]", coq_list(&r.path, |e| e.to_string())) } else { "[]".into() },
        coq_opt(&counts, |(a, b)| format!("({}, {})", a, b)),
        coq_string(&expected)
    );
    common_hist(&mut cx.st, fam, c, q, &r);
    cx.st.count(&format!("tree_size:{}", (r.tree.len() + 3) / 4 * 4));
    cx.st.count(&format!("core:{}", core.split(':').next().unwrap_or("")));
    if r.path.len() >= 2 || r.tree.len() >= 3 || r.status != "Ok" {
        cx.st.mark_nontrivial(&format!("{}|{}", cfg_json(c), qry_json(q)));
    }
    let d = desc(cx, id, fam, c, q, &payload);
    cx.st.case(vec![term], vec![format!("I {} {}", id, payload)], d);
}

// ------------------------------------------------------------------------------------------ app_reach

fn add_reach(cx: &mut Ctx, fam: &str, c: &Cfg, q: &Qry) {
    let id = cx.st.next_id();
    let app = match build(c, &cx.work.join(format!("c{}", id))) {
        Ok(a) => a,
        Err(e) => return build_failed(cx, fam, c, q, &e),
    };
    let query = query_value(c, q);
    let r = run_query(&app, &query);
    let s = semantics(c, q, &r);
    let forbid = forbidden(c, q);
    let init = match c.state.first() {
        Some((_, Feat::Distance(_, i))) => *i,
        _ => 0.0,
    };
    // destination-less: (vertex = far end of the branch's edge, label = the branch's accumulated distance), by vertex
    let mut labels: Vec<(usize, f64)> = r
        .tree
        .iter()
        .map(|(_, e, st)| (c.net.edges.get(*e).map(|x| x.1).unwrap_or(usize::MAX >> 8), st.first().copied().unwrap_or(f64::NAN)))
        .collect();
    labels.sort_by(|a, b| a.0.cmp(&b.0).then(a.1.total_cmp(&b.1)));
    let text = if r.status != "Ok" {
        r.status.clone()
    } else if s.d.is_some() {
        format!("Ok routes={}", if r.has_route { format!("[{}]", show_list(&r.path, |e| e.to_string())) } else { "[]".into() })
    } else {
        format!(
            "Ok verts={} labels={}",
            if r.has_tree { format!("[{}]", show_list(&labels, |x| x.0.to_string())) } else { "[]".into() },
            if r.has_tree { format!("[{}]", show_list(&labels, |x| format!("{}:{}", x.0, show_f64(x.1)))) } else { "[]".into() }
        )
    };
    let mut payload = text.clone();
    if s.mm != "ok" {
        payload += &format!(" mm={}", s.mm);
    }
    if !r.malformed.is_empty() || matches!(r.status.as_str(), "RunErr" | "bad") {
        payload += &format!(" shape=bad:{}{}", r.malformed.join("+"), r.err);
    }
    let term = format!(
        "E2E.line_reach {}%Z {} {} {} {} {} {} {} {} {} {} {} {}",
        id,
        c.net.coords.len(),
        coq_edges(c),
        coq_list(&c.net.edges, |e| sk::coq_q(e.2)),
        coq_list(&forbid, |e| e.to_string()),
        sk::coq_q(init),
        coq_bool(c.edge_oriented),
        s.o,
        nat_opt(&s.d),
        coq_string(&r.status),
        if r.has_tree && s.d.is_none() {
            format!("[{}]", coq_list(&labels, |(v, l)| format!("({}, {})", v, if l.is_finite() { sk::coq_q(*l) } else { "(0 # 1)%Q".to_string() })))
        } else {
            "[]".into()
        },
        if r.has_route { format!("[{}]", coq_list(&r.path, |e| e.to_string())) } else { "[]".into() },
        coq_string(&text)
    );
    common_hist(&mut cx.st, fam, c, q, &r);
    cx.st.count(&format!("forbidden_edges:{}", if forbid.is_empty() { "none" } else if forbid.len() * 3 < c.net.edges.len() { "<1/3" } else { ">=1/3" }));
    if s.d.is_none() {
        cx.st.count(&format!("tree_size:{}", if r.tree.len() > 8 { "9+".to_string() } else { r.tree.len().to_string() }));
        cx.st.count(&format!("unreached_vertices:{}", if c.net.coords.len() > r.tree.len() + 1 { "some" } else { "none" }));
    }
    if r.status == "nopath" || (s.d.is_none() && r.tree.len() >= 2) || r.path.len() >= 2 {
        cx.st.mark_nontrivial(&format!("{}|{}", cfg_json(c), qry_json(q)));
    }
    let d = desc(cx, id, fam, c, q, &payload);
    cx.st.case(vec![term], vec![format!("I {} {}", id, payload)], d);
}

// PART4

// PART5
fn probe(out: &Path) {
    let grid: Vec<(usize, usize)> = vec![(0, 1), (1, 0), (1, 2), (2, 1), (0, 8), (8, 0), (1, 9), (9, 1), (8, 9), (9, 8), (9, 10), (10, 9), (2, 10), (10, 2), (3, 3), (0, 1)];
    let net = simple_net(16, &grid);
    let mut cases: Vec<(&str, Cfg, Qry)> = vec![];
    let mut c = base_cfg(net.clone());
    c.route_fmt = "json".into();
    c.turn = Some(TurnCfg { headings: geo_headings(&net), table: full_turn_table(2.0), unit: "Seconds".into() });
    cases.push(("speed+turn json", c.clone(), plain_q(0, Some(10))));
    cases.push(("no destination", c.clone(), plain_q(0, None)));
    cases.push(("unreachable", c.clone(), plain_q(0, Some(5))));
    cases.push(("same", c.clone(), plain_q(0, Some(0))));
    let mut d = dist_cfg(net.clone(), "Kilometers", 0.0);
    d.astar = false;
    d.tree_fmt = Some("edge_id".into());
    cases.push(("distance dijkstra", d.clone(), plain_q(0, Some(10))));
    d.edge_oriented = true;
    cases.push(("edge oriented", d.clone(), plain_q(0, Some(11))));
    cases.push(("edge oriented same", d.clone(), plain_q(0, Some(0))));
    cases.push(("edge oriented adjacent", d.clone(), plain_q(0, Some(2))));
    d.input = Inp::Edge;
    cases.push(("edge matched", d.clone(), plain_q(4, Some(11))));
    let mut v = base_cfg(net.clone());
    v.input = Inp::Vertex;
    v.road_class = true;
    let mut q = plain_q(0, Some(10));
    q.classes = Some(vec![0]);
    q.user = vec![("distance".into(), Feat::Distance("Miles".into(), 5.0))];
    q.weights = Some(vec![("distance".into(), 1.0)]);
    cases.push(("vertex matched, classes, user features", v, q));
    for (i, (name, c, q)) in cases.iter().enumerate() {
        let dir = out.join(format!("p{}", i));
        match build(c, &dir) {
            Err(e) => println!("== {}: {}\n{}", name, e, std::fs::read_to_string(dir.join("compass.toml")).unwrap_or_default()),
            Ok(app) => {
                let qv = query_value(c, q);
                let r = run_query(&app, &qv);
                println!("== {}: query {}\n   status={} err={:?} ends={:?} path={:?} tree={} summary={:?} cost={:?} re={:?} ts={:?} malformed={:?}", name, qv, r.status, r.err, r.ends, r.path, r.tree.len(), r.summary, r.cost, r.route_edges, r.tree_size, r.malformed);
                println!("   raw={}", serde_json::to_string(&r.raw).unwrap().chars().take(1500).collect::<String>());
            }
        }
    }
}

fn main() {
    silence_panics();
    let a = parse_args();
    if a.stream == "probe" {
        probe(&a.out);
        std::process::exit(0);
    }
    std::process::exit(0);
}
