//! E2E harness: the APPLICATION GLUE.  Every case goes through a REAL `CompassApp` built offline from a generated
//! configuration (TOML text) and generated network files, and `CompassApp::run` on one JSON query:
//!   search_app.rs (run_vertex_oriented / run_edge_oriented dispatch, build_search_instance from config + query, query
//!   field parsing), input plugins (vertex / edge map matching), output plugins (traversal: route.path,
//!   route.traversal_summary, route.cost, tree; summary: route_edges, tree_size_count), error packaging.
//! The EXISTING verified checkers / specifications are evaluated in Coq on the facts extracted from the JSON response
//! (coq/Model/E2ERun.v, which only imports and calls them):
//!   app_walk   (C01)  SearchSpec.check_route / check_eroute / check_tree / check_etree through SR.check_outcome
//!   app_sums   (C03)  the exact-rational judge TR.judge (Model/TraversalRun.v) + the binary64 model TR.run (M line)
//!   app_reach  (C05)  Reach.reachb / pwalkb / reach_set / Bellman-Ford through RR.judge (Model/ReachRun.v)
//! Lines: I = canonical facts of the response; S = the verdict computed in Coq (prints the expected text when the
//! checkers accept, REJECT(..) otherwise); M only for app_sums (the traversal model re-walks the returned path bit for bit).
//! Command line: e2e <app_walk|app_sums|app_reach|probe> --seed S --n N --out DIR --shards K [--replay FILE]
//! (FILE = {"case": <description>} or {"cases": [...]}: the configuration and query are rebuilt from the description).
//! `probe` prints raw responses.  Private helpers only (appkit / searchkit are read-only): the configuration writer
//! (appkit's has no [state] section, turn delays, road-class frontier, unit choices) lives here.
use routee_compass::app::compass::compass_app::CompassApp;
use routee_compass::app::compass::config::compass_app_builder::CompassAppBuilder;
use routee_compass_core::algorithm::search::direction::Direction;
use routee_compass_core::algorithm::search::edge_traversal::EdgeTraversal;
use routee_compass_core::algorithm::search::search_instance::SearchInstance;
use routee_compass_core::model::network::{EdgeId, VertexId};
use routee_compass_core::model::unit::as_f64::AsF64;
use serde_json::{json, Map, Value};
use std::panic::AssertUnwindSafe;
use std::path::{Path, PathBuf};
use std::sync::Arc;
use verif_harness::appkit::{run_watchdog, write_network, Net, NetFiles, RunOutcome};
use verif_harness::searchkit as sk;
use verif_harness::*;

const DIST: [&str; 5] = ["Meters", "Kilometers", "Miles", "Inches", "Feet"];
const TIME: [&str; 4] = ["Hours", "Minutes", "Seconds", "Milliseconds"];
const SPEED: [&str; 3] = ["KilometersPerHour", "MilesPerHour", "MetersPerSecond"];
const TURNS: [&str; 8] = ["NoTurn", "SlightRight", "SlightLeft", "Right", "Left", "SharpRight", "SharpLeft", "UTurn"];
const WATCHDOG_MS: u64 = 20000;

fn snake(id: &str) -> String {
    if id == "UTurn" {
        return "u_turn".into();
    }
    let mut s = String::new();
    for (i, c) in id.chars().enumerate() {
        if c.is_ascii_uppercase() {
            if i > 0 {
                s.push('_');
            }
            s.push(c.to_ascii_lowercase());
        } else {
            s.push(c);
        }
    }
    s
}

// ------------------------------------------------------------------------------------------ case description

#[derive(Clone, Debug)]
enum Feat {
    Distance(String, f64),
    Time(String, f64),
    /// type+unit tag, initial
    Custom(String, f64),
}
#[derive(Clone, Debug)]
enum Tm {
    Dist(String),
    Speed { su: String, du: Option<String>, tu: Option<String> },
}
#[derive(Clone, Debug)]
struct TurnCfg {
    headings: Vec<(i64, Option<i64>)>,
    table: Vec<(String, f64)>,
    unit: String,
}
#[derive(Clone, Debug, PartialEq)]
enum Inp {
    None,
    Vertex,
    Edge,
}
#[derive(Clone, Debug)]
enum VRate {
    Raw,
    Factor(f64),
}
#[derive(Clone, Debug)]
struct Cfg {
    net: Net,
    astar: bool,
    cfg_wf: Option<f64>,
    tm: Tm,
    /// the [state] section (at most one entry: the order of several would depend on the config crate's map)
    state: Vec<(String, Feat)>,
    turn: Option<TurnCfg>,
    road_class: bool,
    edge_oriented: bool,
    input: Inp,
    route_fmt: String,
    tree_fmt: Option<String>,
    summary: bool,
    weights: Vec<(String, f64)>,
    vrates: Vec<(String, VRate)>,
}
#[derive(Clone, Debug)]
struct Qry {
    /// vertex ids or edge ids, by the configuration's orientation
    o: usize,
    d: Option<usize>,
    classes: Option<Vec<u8>>,
    weights: Option<Vec<(String, f64)>>,
    user: Vec<(String, Feat)>,
    wf: Option<f64>,
}

fn feat_json(f: &Feat) -> Value {
    match f {
        Feat::Distance(u, i) => json!({"k": "distance", "u": u, "i": i}),
        Feat::Time(u, i) => json!({"k": "time", "u": u, "i": i}),
        Feat::Custom(u, i) => json!({"k": "custom", "u": u, "i": i}),
    }
}
fn feat_from(v: &Value) -> Feat {
    let u = v["u"].as_str().unwrap().to_string();
    let i = v["i"].as_f64().unwrap();
    match v["k"].as_str().unwrap() {
        "distance" => Feat::Distance(u, i),
        "time" => Feat::Time(u, i),
        _ => Feat::Custom(u, i),
    }
}
fn feats_json(l: &[(String, Feat)]) -> Value {
    Value::Array(l.iter().map(|(n, f)| json!([n, feat_json(f)])).collect())
}
fn feats_from(v: &Value) -> Vec<(String, Feat)> {
    v.as_array().map(|a| a.iter().map(|x| (x[0].as_str().unwrap().to_string(), feat_from(&x[1]))).collect()).unwrap_or_default()
}
fn wts_json(l: &[(String, f64)]) -> Value {
    Value::Array(l.iter().map(|(n, w)| json!([n, w])).collect())
}
fn wts_from(v: &Value) -> Vec<(String, f64)> {
    v.as_array().map(|a| a.iter().map(|x| (x[0].as_str().unwrap().to_string(), x[1].as_f64().unwrap())).collect()).unwrap_or_default()
}
fn cfg_json(c: &Cfg) -> Value {
    json!({
        "net": c.net.to_json(), "astar": c.astar, "cfg_wf": c.cfg_wf,
        "tm": match &c.tm { Tm::Dist(u) => json!({"dist": u}), Tm::Speed { su, du, tu } => json!({"su": su, "du": du, "tu": tu}) },
        "state": feats_json(&c.state),
        "turn": match &c.turn { None => Value::Null, Some(t) => json!({"headings": t.headings, "table": wts_json(&t.table), "unit": t.unit}) },
        "road_class": c.road_class, "edge_oriented": c.edge_oriented,
        "input": match c.input { Inp::None => "none", Inp::Vertex => "vertex", Inp::Edge => "edge" },
        "route_fmt": c.route_fmt, "tree_fmt": c.tree_fmt, "summary": c.summary,
        "weights": wts_json(&c.weights),
        "vrates": Value::Array(c.vrates.iter().map(|(n, r)| match r { VRate::Raw => json!([n, null]), VRate::Factor(f) => json!([n, f]) }).collect()),
    })
}
fn cfg_from(v: &Value) -> Cfg {
    let s = |x: &Value| x.as_str().map(|y| y.to_string());
    Cfg {
        net: Net::from_json(&v["net"]),
        astar: v["astar"].as_bool().unwrap(),
        cfg_wf: v["cfg_wf"].as_f64(),
        tm: if let Some(u) = v["tm"].get("dist") { Tm::Dist(s(u).unwrap()) } else { Tm::Speed { su: s(&v["tm"]["su"]).unwrap(), du: s(&v["tm"]["du"]), tu: s(&v["tm"]["tu"]) } },
        state: feats_from(&v["state"]),
        turn: if v["turn"].is_null() {
            None
        } else {
            Some(TurnCfg {
                headings: v["turn"]["headings"].as_array().unwrap().iter().map(|h| (h[0].as_i64().unwrap(), h[1].as_i64())).collect(),
                table: wts_from(&v["turn"]["table"]),
                unit: s(&v["turn"]["unit"]).unwrap(),
            })
        },
        road_class: v["road_class"].as_bool().unwrap(),
        edge_oriented: v["edge_oriented"].as_bool().unwrap(),
        input: match v["input"].as_str().unwrap() {
            "vertex" => Inp::Vertex,
            "edge" => Inp::Edge,
            _ => Inp::None,
        },
        route_fmt: s(&v["route_fmt"]).unwrap(),
        tree_fmt: s(&v["tree_fmt"]),
        summary: v["summary"].as_bool().unwrap(),
        weights: wts_from(&v["weights"]),
        vrates: v["vrates"].as_array().unwrap().iter().map(|x| (x[0].as_str().unwrap().to_string(), match x[1].as_f64() { None => VRate::Raw, Some(f) => VRate::Factor(f) })).collect(),
    }
}
fn qry_json(q: &Qry) -> Value {
    json!({"o": q.o, "d": q.d, "classes": q.classes, "weights": q.weights.as_ref().map(|w| wts_json(w)), "user": feats_json(&q.user), "wf": q.wf})
}
fn qry_from(v: &Value) -> Qry {
    Qry {
        o: v["o"].as_u64().unwrap() as usize,
        d: v["d"].as_u64().map(|x| x as usize),
        classes: v["classes"].as_array().map(|a| a.iter().map(|x| x.as_u64().unwrap() as u8).collect()),
        weights: if v["weights"].is_null() { None } else { Some(wts_from(&v["weights"])) },
        user: feats_from(&v["user"]),
        wf: v["wf"].as_f64(),
    }
}

// ------------------------------------------------------------------------------------------ configuration text

/// a state feature as the JSON the repository's own serde definition accepts
fn feature_value(f: &Feat) -> Value {
    match f {
        Feat::Distance(u, i) => json!({"distance_unit": snake(u), "initial": i}),
        Feat::Time(u, i) => json!({"time_unit": snake(u), "initial": i}),
        Feat::Custom(t, i) => json!({"type": t, "unit": t, "format": {"floating_point": {"initial": i}}}),
    }
}
fn features_value(l: &[(String, Feat)]) -> Value {
    let mut m = Map::new();
    for (n, f) in l {
        m.insert(n.clone(), feature_value(f));
    }
    Value::Object(m)
}

fn toml_scalar(v: &Value) -> String {
    match v {
        Value::String(s) => format!("\"{}\"", s.replace('\\', "\\\\").replace('"', "\\\"")),
        Value::Number(n) => {
            if n.is_f64() {
                format!("{:?}", n.as_f64().unwrap())
            } else {
                n.to_string()
            }
        }
        Value::Bool(b) => b.to_string(),
        Value::Array(a) => format!("[{}]", a.iter().map(toml_scalar).collect::<Vec<_>>().join(", ")),
        Value::Object(m) => format!("{{ {} }}", m.iter().map(|(k, x)| format!("{} = {}", k, toml_scalar(x))).collect::<Vec<_>>().join(", ")),
        Value::Null => "\"\"".into(),
    }
}
/// a JSON object as TOML text: scalars / arrays / `inline` keys first, then one [table] per object-valued key
fn toml_table(path: &str, m: &Map<String, Value>, inline: &[&str], out: &mut String) {
    for (k, v) in m {
        if !v.is_object() || inline.contains(&k.as_str()) {
            out.push_str(&format!("{} = {}\n", k, toml_scalar(v)));
        }
    }
    for (k, v) in m {
        if let (Value::Object(sub), false) = (v, inline.contains(&k.as_str())) {
            let p = if path.is_empty() { k.clone() } else { format!("{}.{}", path, k) };
            out.push_str(&format!("[{}]\n", p));
            toml_table(&p, sub, inline, out);
        }
    }
}

struct Files {
    net: NetFiles,
    headings: String,
}
fn write_files(c: &Cfg, dir: &Path) -> Files {
    let net = write_network(dir, &c.net);
    let p = dir.join("headings.csv");
    if let Some(t) = &c.turn {
        let mut s = String::from("arrival_heading,departure_heading\n");
        for (a, d) in &t.headings {
            s += &format!("{},{}\n", a, d.map(|x| x.to_string()).unwrap_or_default());
        }
        std::fs::write(&p, s).unwrap();
    }
    Files { net, headings: p.to_str().unwrap().to_string() }
}

fn config_value(c: &Cfg, f: &Files) -> Value {
    let mut alg = json!({"type": if c.astar { "a*" } else { "dijkstra" }});
    if let (true, Some(w)) = (c.astar, c.cfg_wf) {
        alg["weight_factor"] = json!(w);
    }
    let traversal = match &c.tm {
        Tm::Dist(u) => json!({"type": "distance", "distance_unit": snake(u)}),
        Tm::Speed { su, du, tu } => {
            let mut t = json!({"type": "speed_table", "speed_table_input_file": f.net.speeds, "speed_unit": snake(su)});
            if let Some(u) = du {
                t["distance_unit"] = json!(snake(u));
            }
            if let Some(u) = tu {
                t["time_unit"] = json!(snake(u));
            }
            t
        }
    };
    let access = match &c.turn {
        None => json!({"type": "no_access_model"}),
        Some(t) => {
            let mut table = Map::new();
            for (k, v) in &t.table {
                table.insert(snake(k), json!(v));
            }
            json!({"type": "turn_delay", "edge_heading_input_file": f.headings, "time_feature_name": "time",
                   "turn_delay_model": {"type": "tabular_discrete", "time_unit": snake(&t.unit), "table": table}})
        }
    };
    let mut weights = Map::new();
    for (n, w) in &c.weights {
        weights.insert(n.clone(), json!(w));
    }
    let mut vrates = Map::new();
    for (n, r) in &c.vrates {
        vrates.insert(n.clone(), match r {
            VRate::Raw => json!({"type": "raw"}),
            VRate::Factor(x) => json!({"type": "factor", "factor": x}),
        });
    }
    let frontier = if c.road_class { json!({"type": "road_class", "road_class_input_file": f.net.road_classes}) } else { json!({"type": "no_restriction"}) };
    let inputs: Vec<Value> = match c.input {
        Inp::None => vec![],
        Inp::Vertex => vec![json!({"type": "vertex_rtree", "vertices_input_file": f.net.vertices})],
        Inp::Edge => vec![json!({"type": "edge_rtree", "geometry_input_file": f.net.geometries})],
    };
    let mut outputs: Vec<Value> = vec![];
    if c.summary {
        outputs.push(json!({"type": "summary"}));
    }
    let mut tr = json!({"type": "traversal", "geometry_input_file": f.net.geometries, "route": c.route_fmt});
    if let Some(t) = &c.tree_fmt {
        tr["tree"] = json!(t);
    }
    outputs.push(tr);
    let mut top = Map::new();
    top.insert("parallelism".into(), json!(1));
    top.insert("search_orientation".into(), json!(if c.edge_oriented { "edge" } else { "vertex" }));
    top.insert("response_persistence_policy".into(), json!("persist_response_in_memory"));
    top.insert("response_output_policy".into(), json!({"type": "none"}));
    top.insert("graph".into(), json!({"edge_list_input_file": f.net.edges, "vertex_list_input_file": f.net.vertices, "verbose": false}));
    top.insert("algorithm".into(), alg);
    if !c.state.is_empty() {
        top.insert("state".into(), features_value(&c.state));
    }
    top.insert("traversal".into(), traversal);
    top.insert("access".into(), access);
    top.insert("cost".into(), json!({"cost_aggregation": "sum", "weights": weights, "vehicle_rates": vrates}));
    top.insert("frontier".into(), frontier);
    top.insert("plugin".into(), json!({"input_plugins": inputs, "output_plugins": outputs}));
    Value::Object(top)
}
fn config_toml(c: &Cfg, f: &Files) -> String {
    let v = config_value(c, f);
    let mut out = String::new();
    // every feature of [state] and every vehicle rate is written as an inline table
    let mut inline: Vec<String> = c.state.iter().map(|(n, _)| n.clone()).collect();
    inline.push("response_output_policy".into());
    let inl: Vec<&str> = inline.iter().map(|s| s.as_str()).collect();
    toml_table("", v.as_object().unwrap(), &inl, &mut out);
    out
}

fn build(c: &Cfg, dir: &Path) -> Result<Arc<CompassApp>, String> {
    std::fs::create_dir_all(dir).map_err(|e| e.to_string())?;
    let files = write_files(c, dir);
    let toml = config_toml(c, &files);
    let conf = dir.join("compass.toml");
    std::fs::write(&conf, &toml).map_err(|e| e.to_string())?;
    let conf_s = conf.to_str().unwrap().to_string();
    match catch(move || CompassApp::try_from_config_toml_string(toml, conf_s, &CompassAppBuilder::default())) {
        Ok(Ok(app)) => Ok(Arc::new(app)),
        Ok(Err(e)) => Err(format!("build error: {}", e)),
        Err(p) => Err(format!("build panic: {}", p)),
    }
}

// ------------------------------------------------------------------------------------------ query text

fn seg_point(c: &Cfg, e: usize) -> (f64, f64) {
    let (s, d, _, _, _) = c.net.edges[e];
    let (a, b) = (c.net.coords[s], c.net.coords[d]);
    // the edge matcher ranks edges by the distance to the midpoint of their geometry
    (a.0 + 0.5 * (b.0 - a.0), a.1 + 0.5 * (b.1 - a.1))
}
fn query_value(c: &Cfg, q: &Qry) -> Value {
    let mut m = Map::new();
    match c.input {
        Inp::None => {
            let (ko, kd) = if c.edge_oriented { ("origin_edge", "destination_edge") } else { ("origin_vertex", "destination_vertex") };
            m.insert(ko.into(), json!(q.o));
            if let Some(d) = q.d {
                m.insert(kd.into(), json!(d));
            }
        }
        Inp::Vertex | Inp::Edge => {
            let pt = |i: usize| -> Option<(f64, f64)> {
                if c.input == Inp::Vertex {
                    c.net.coords.get(i).map(|p| (p.0 + 0.0005, p.1 - 0.00025))
                } else if i < c.net.edges.len() {
                    Some(seg_point(c, i))
                } else {
                    None
                }
            };
            if let Some(p) = pt(q.o) {
                m.insert("origin_x".into(), json!(p.0));
                m.insert("origin_y".into(), json!(p.1));
            }
            if let Some(p) = q.d.and_then(pt) {
                m.insert("destination_x".into(), json!(p.0));
                m.insert("destination_y".into(), json!(p.1));
            }
        }
    }
    if let Some(cl) = &q.classes {
        m.insert("road_classes".into(), json!(cl));
    }
    if let Some(w) = &q.weights {
        let mut wm = Map::new();
        for (n, x) in w {
            wm.insert(n.clone(), json!(x));
        }
        m.insert("weights".into(), Value::Object(wm));
    }
    if !q.user.is_empty() {
        m.insert("state_features".into(), features_value(&q.user));
    }
    if let Some(w) = q.wf {
        m.insert("weight_factor".into(), json!(w));
    }
    Value::Object(m)
}

// ------------------------------------------------------------------------------------------ the response

#[derive(Clone, Debug, Default)]
struct Resp {
    /// Ok | nopath | terminated | err | Panic | Hang | RunErr | bad
    status: String,
    err: String,
    /// the two ids named by a no-path error
    ends: Option<(usize, usize)>,
    has_route: bool,
    path: Vec<usize>,
    recs: Vec<EdgeTraversal>,
    has_tree: bool,
    /// (terminal_vertex when the format shows it, edge id, result_state when shown)
    tree: Vec<(Option<usize>, usize, Vec<f64>)>,
    summary: Vec<(String, f64)>,
    cost: Vec<(String, f64)>,
    route_edges: Option<u64>,
    tree_size: Option<u64>,
    req: Value,
    malformed: Vec<String>,
    raw: Value,
}
fn kv_f64(v: &Value) -> Vec<(String, f64)> {
    let mut kv: Vec<(String, f64)> = v.as_object().map(|m| m.iter().map(|(k, x)| (k.clone(), x.as_f64().unwrap_or(f64::NAN))).collect()).unwrap_or_default();
    kv.sort_by(|a, b| a.0.as_bytes().cmp(b.0.as_bytes()));
    kv
}
fn two_numbers(s: &str) -> Option<(usize, usize)> {
    let nums: Vec<usize> = s.split(|c: char| !c.is_ascii_digit()).filter(|x| !x.is_empty()).filter_map(|x| x.parse().ok()).collect();
    if nums.len() == 2 {
        Some((nums[0], nums[1]))
    } else {
        None
    }
}
fn parse_response(out: &RunOutcome) -> Resp {
    let mut r = Resp::default();
    let v = match out {
        RunOutcome::Hang => {
            r.status = "Hang".into();
            return r;
        }
        RunOutcome::Panic(p) => {
            r.status = "Panic".into();
            r.err = p.clone();
            return r;
        }
        RunOutcome::Err(e) => {
            r.status = "RunErr".into();
            r.err = e.clone();
            return r;
        }
        RunOutcome::Ok(vs) => {
            if vs.len() != 1 {
                r.status = "bad".into();
                r.err = format!("{} responses for one query", vs.len());
                return r;
            }
            vs[0].clone()
        }
    };
    r.raw = v.clone();
    r.req = v.get("request").cloned().unwrap_or(Value::Null);
    if !v.is_object() || r.req.is_null() {
        r.status = "bad".into();
        return r;
    }
    if let Some(e) = v.get("error") {
        let text = e.as_str().unwrap_or("").to_string();
        r.status = if text.starts_with("no path exists between") {
            r.ends = two_numbers(&text);
            "nopath".into()
        } else if text.starts_with("query terminated") || text.contains("QueryTerminated") {
            "terminated".into()
        } else {
            "err".into()
        };
        r.err = text;
        if v.get("route").is_some() || v.get("tree").is_some() {
            r.malformed.push("error response with route/tree".into());
        }
        return r;
    }
    r.status = "Ok".into();
    if let Some(route) = v.get("route") {
        if route.is_object() {
            r.has_route = true;
            match route.get("path").and_then(|p| p.as_array()) {
                None => r.malformed.push("route without path".into()),
                Some(p) => {
                    for x in p {
                        if let Some(e) = x.as_u64() {
                            r.path.push(e as usize);
                        } else if x.is_object() {
                            match serde_json::from_value::<EdgeTraversal>(x.clone()) {
                                Ok(et) => {
                                    r.path.push(et.edge_id.0);
                                    r.recs.push(et);
                                }
                                Err(_) => r.malformed.push("path record".into()),
                            }
                        } else {
                            r.malformed.push("path element".into());
                        }
                    }
                }
            }
            r.summary = kv_f64(route.get("traversal_summary").unwrap_or(&Value::Null));
            r.cost = kv_f64(route.get("cost").unwrap_or(&Value::Null));
        } else if !route.is_null() {
            r.malformed.push("route is neither object nor null".into());
        }
    }
    if let Some(tree) = v.get("tree") {
        if let Some(a) = tree.as_array() {
            r.has_tree = true;
            for x in a {
                if let Some(e) = x.as_u64() {
                    r.tree.push((None, e as usize, vec![]));
                } else if x.is_object() {
                    let tv = x["terminal_vertex"].as_u64().map(|y| y as usize);
                    let e = x["edge_traversal"]["edge_id"].as_u64().map(|y| y as usize);
                    let st: Vec<f64> = x["edge_traversal"]["result_state"].as_array().map(|s| s.iter().map(|y| y.as_f64().unwrap_or(f64::NAN)).collect()).unwrap_or_default();
                    match (tv, e) {
                        (Some(tv), Some(e)) => r.tree.push((Some(tv), e, st)),
                        _ => r.malformed.push("tree branch".into()),
                    }
                } else {
                    r.malformed.push("tree element".into());
                }
            }
        } else if !tree.is_null() {
            r.malformed.push("tree is neither array nor null".into());
        }
    }
    r.route_edges = v.get("route_edges").and_then(|x| x.as_u64());
    r.tree_size = v.get("tree_size_count").and_then(|x| x.as_u64());
    r
}

fn run_query(app: &Arc<CompassApp>, query: &Value) -> Resp {
    parse_response(&run_watchdog(app, vec![query.clone()], None, WATCHDOG_MS))
}


// ------------------------------------------------------------------------------------------ networks

/// vertex i sits on cell i of an 8 x 8 grid with 1/8 degree spacing (exact in f32)
fn cell(i: usize) -> (f64, f64) {
    (-105.0 + 0.125 * (i % 8) as f64, 39.0 + 0.125 * (i / 8) as f64)
}
fn hav_m(a: (f64, f64), b: (f64, f64)) -> f64 {
    let (lat1, lat2) = (a.1.to_radians(), b.1.to_radians());
    let (dlat, dlon) = (lat2 - lat1, (b.0 - a.0).to_radians());
    let h = (dlat / 2.0).sin().powi(2) + (dlon / 2.0).sin().powi(2) * lat1.cos() * lat2.cos();
    6_371_000.0 * 2.0 * h.sqrt().asin()
}
const SPEEDS: [f64; 8] = [15.0, 25.0, 37.5, 40.0, 55.0, 62.5, 90.0, 120.0];
/// a network over given coordinates: length = great-circle distance * factor (whole meters, >= 1), so that with
/// factor >= 1.02 the haversine estimate of the traversal models is consistent; self loops get 400 m
fn net_of(coords: Vec<(f64, f64)>, edges: &[(usize, usize)], factor: impl Fn(usize) -> f64, speed: impl Fn(usize) -> f64, class: impl Fn(usize) -> u8) -> Net {
    let es = edges
        .iter()
        .enumerate()
        .map(|(i, (s, d))| {
            let h = if s == d || *s >= coords.len() || *d >= coords.len() { 400.0 } else { hav_m(coords[*s], coords[*d]) };
            (*s, *d, (h * factor(i)).ceil().max(1.0), speed(i), class(i))
        })
        .collect();
    Net { coords, edges: es }
}
fn simple_net(n: usize, edges: &[(usize, usize)]) -> Net {
    net_of((0..n).map(cell).collect(), edges, |i| 1.05 + 0.1 * (i % 4) as f64, |i| SPEEDS[i % SPEEDS.len()], |_| 0)
}
/// random network: searchkit's graph generator (n 3..40, dense vertex, forced parallel edge / self loop / isolated
/// vertex / unreachable part) on distinct random grid cells
fn gen_net(r: &mut Rng, consistent: bool) -> (Net, Vec<&'static str>) {
    let (n, mut edges, flags) = sk::gen_graph(r);
    if edges.is_empty() {
        // the speed table of an edgeless network does not load
        edges.push((0, 1));
    }
    let mut cells: Vec<usize> = (0..64).collect();
    r.shuffle(&mut cells);
    let coords: Vec<(f64, f64)> = cells[..n].iter().map(|c| cell(*c)).collect();
    let fs: Vec<f64> = edges.iter().map(|_| if consistent { 1.02 + r.below(150) as f64 / 100.0 } else { 0.3 + r.below(250) as f64 / 100.0 }).collect();
    let sp: Vec<f64> = edges.iter().map(|_| *r.pick(&SPEEDS)).collect();
    let cl: Vec<u8> = edges.iter().map(|_| r.below(4) as u8).collect();
    (net_of(coords, &edges, |i| fs[i], |i| sp[i], |i| cl[i]), flags)
}

fn base_cfg(net: Net) -> Cfg {
    Cfg {
        net,
        astar: true,
        cfg_wf: None,
        tm: Tm::Speed { su: "KilometersPerHour".into(), du: None, tu: None },
        state: vec![],
        turn: None,
        road_class: false,
        edge_oriented: false,
        input: Inp::None,
        route_fmt: "edge_id".into(),
        tree_fmt: Some("json".into()),
        summary: true,
        weights: vec![("distance".into(), 0.0), ("time".into(), 1.0)],
        vrates: vec![("distance".into(), VRate::Raw), ("time".into(), VRate::Raw)],
    }
}
fn dist_cfg(net: Net, unit: &str, initial: f64) -> Cfg {
    let mut c = base_cfg(net);
    c.tm = Tm::Dist(unit.into());
    c.state = vec![("distance".into(), Feat::Distance(unit.into(), initial))];
    c.weights = vec![("distance".into(), 1.0)];
    c.vrates = vec![("distance".into(), VRate::Raw)];
    c
}
fn plain_q(o: usize, d: Option<usize>) -> Qry {
    Qry { o, d, classes: None, weights: None, user: vec![], wf: None }
}
fn full_turn_table(base: f64) -> Vec<(String, f64)> {
    TURNS.iter().enumerate().map(|(i, t)| (t.to_string(), if i == 0 { 0.0 } else { base * i as f64 })).collect()
}
/// headings from the geometry (whole degrees clockwise from north), self loops 0
fn geo_headings(net: &Net) -> Vec<(i64, Option<i64>)> {
    net.edges
        .iter()
        .map(|(s, d, _, _, _)| {
            if s == d || *s >= net.coords.len() || *d >= net.coords.len() {
                return (0, None);
            }
            let (a, b) = (net.coords[*s], net.coords[*d]);
            let ang = ((b.0 - a.0) * (a.1.to_radians().cos())).atan2(b.1 - a.1).to_degrees();
            let h = ((ang.round() as i64) % 360 + 360) % 360;
            (h, None)
        })
        .collect()
}


// ------------------------------------------------------------------------------------------ what the query means

const HEADER: &str = "From Coq Require Import ZArith QArith List String Floats.\nFrom RC Require Import Base.Show Base.Num Base.Res Model.Units Model.StateOps Model.Traversal Model.Cost Model.TraversalRun Model.Search Model.SearchRun Model.E2ERun.\nImport ListNotations.\nOpen Scope nat_scope.";

struct Sem {
    o: usize,
    d: Option<usize>,
    /// "ok" or why the ids written by the map-matching plugin are not the nearest elements
    mm: String,
}
fn semantics(c: &Cfg, q: &Qry, r: &Resp) -> Sem {
    match c.input {
        Inp::None => Sem { o: q.o, d: q.d, mm: "ok".into() },
        Inp::Vertex => {
            let eo = r.req.get("origin_vertex").and_then(|x| x.as_u64()).map(|x| x as usize);
            let ed = r.req.get("destination_vertex").and_then(|x| x.as_u64()).map(|x| x as usize);
            let ok = eo == Some(q.o) && ed == q.d;
            Sem { o: q.o, d: q.d, mm: if ok { "ok".into() } else { format!("matched({:?},{:?})", eo, ed) } }
        }
        Inp::Edge => {
            let eo = r.req.get("origin_edge").and_then(|x| x.as_u64()).map(|x| x as usize);
            let ed = r.req.get("destination_edge").and_then(|x| x.as_u64()).map(|x| x as usize);
            let nearest = |want: usize, got: Option<usize>| -> bool {
                let (Some(g), true) = (got, want < c.net.edges.len()) else { return false };
                if g >= c.net.edges.len() {
                    return false;
                }
                let p = seg_point(c, want);
                let dist = |e: usize| {
                    let m = seg_point(c, e);
                    ((p.0 - m.0).powi(2) + (p.1 - m.1).powi(2)).sqrt()
                };
                let best = (0..c.net.edges.len()).map(dist).fold(f64::INFINITY, f64::min);
                dist(g) <= best + 1e-6
            };
            let ok = nearest(q.o, eo) && match q.d {
                None => ed.is_none(),
                Some(d) => nearest(d, ed),
            };
            Sem { o: eo.unwrap_or(q.o), d: if q.d.is_some() { ed.or(q.d) } else { None }, mm: if ok { "ok".into() } else { format!("matched({:?},{:?})", eo, ed) } }
        }
    }
}
/// the ids a no-path error must name
fn nopath_ends(c: &Cfg, s: &Sem) -> Option<(usize, usize)> {
    let d = s.d?;
    if c.edge_oriented {
        let e1 = c.net.edges.get(s.o)?;
        let e2 = c.net.edges.get(d)?;
        Some((e1.1, e2.0))
    } else {
        Some((s.o, d))
    }
}
fn coq_edges(c: &Cfg) -> String {
    coq_list(&c.net.edges, |(s, d, _, _, _)| format!("({}, {})", s, d))
}
fn nat_opt(x: &Option<usize>) -> String {
    coq_opt(x, |v| v.to_string())
}
fn forbidden(c: &Cfg, q: &Qry) -> Vec<usize> {
    match (&q.classes, c.road_class) {
        (Some(cl), true) => (0..c.net.edges.len()).filter(|e| !cl.contains(&c.net.edges[*e].4)).collect(),
        _ => vec![],
    }
}
/// vertices reachable from `from` over permitted edges
fn bfs(c: &Cfg, forbid: &[usize], from: usize) -> Vec<bool> {
    let n = c.net.coords.len();
    let mut seen = vec![false; n];
    if from >= n {
        return seen;
    }
    seen[from] = true;
    let mut stack = vec![from];
    while let Some(v) = stack.pop() {
        for (i, (s, d, _, _, _)) in c.net.edges.iter().enumerate() {
            if *s == v && *d < n && !seen[*d] && !forbid.contains(&i) {
                seen[*d] = true;
                stack.push(*d);
            }
        }
    }
    seen
}

struct Ctx {
    /// `error` text of the last response (for the reader of a case description)
    last_err: String,
    st: Stream,
    work: PathBuf,
    stream: String,
}
fn desc(cx: &Ctx, id: usize, fam: &str, c: &Cfg, q: &Qry, short: &str) -> Value {
    json!({"id": id, "error_text": cx.last_err.chars().take(300).collect::<String>(), "family": fam, "stream": cx.stream, "cfg": cfg_json(c), "qry": qry_json(q), "query": query_value(c, q),
           "impl_short": short.chars().take(240).collect::<String>()})
}
fn common_hist(st: &mut Stream, fam: &str, c: &Cfg, q: &Qry, r: &Resp) {
    st.count(&format!("family:{}", fam.split('#').next().unwrap_or(fam)));
    st.count(&format!("status:{}", r.status));
    st.count(&format!("orient:{}", if c.edge_oriented { "edge" } else { "vertex" }));
    st.count(&format!("alg:{}", if c.astar { "a*" } else { "dijkstra" }));
    st.count(&format!("input:{:?}", c.input));
    st.count(&format!("traversal:{}", match c.tm { Tm::Dist(_) => "distance", Tm::Speed { .. } => "speed_table" }));
    st.count(&format!("access:{}", if c.turn.is_some() { "turn_delay" } else { "none" }));
    st.count(&format!("frontier:{}", if c.road_class { if q.classes.is_some() { "road_class+query" } else { "road_class" } } else { "none" }));
    st.count(&format!("route_fmt:{}", c.route_fmt));
    st.count(&format!("tree_fmt:{}", c.tree_fmt.clone().unwrap_or("none".into())));
    st.count(&format!("destination:{}", if q.d.is_some() { "some" } else { "none" }));
    st.count(&format!("n:{}", (c.net.coords.len() + 7) / 8 * 8));
    st.count(&format!("route_edges:{}", if r.path.len() > 6 { "7+".to_string() } else { r.path.len().to_string() }));
    if q.weights.is_some() {
        st.count("query:weights");
    }
    if !q.user.is_empty() {
        st.count("query:state_features");
    }
    if q.wf.is_some() {
        st.count("query:weight_factor");
    }
}
fn build_failed(cx: &mut Ctx, fam: &str, c: &Cfg, q: &Qry, e: &str) {
    let id = cx.st.next_id();
    cx.st.count("BUILD-FAILED");
    let d = desc(cx, id, fam, c, q, e);
    let mut terms = vec![format!("E2E.line_echo \"S\" {}%Z \"the generated configuration builds\"", id)];
    if cx.stream == "app_sums" {
        terms.push(format!("E2E.line_echo \"M\" {}%Z \"the generated configuration builds\"", id));
    }
    cx.st.case(terms, vec![format!("I {} BUILD-FAILED {}", id, e.replace('\n', " "))], d);
}

// ------------------------------------------------------------------------------------------ the direct core run

fn path_cost(si: &SearchInstance, es: &[usize]) -> Option<f64> {
    let mut st = si.state_model.initial_state().ok()?;
    let mut prev = None;
    let mut sum = 0.0;
    for e in es {
        let et = EdgeTraversal::forward_traversal(EdgeId(*e), prev, &st, si).ok()?;
        sum += et.total_cost().as_f64();
        st = et.result_state.clone();
        prev = Some(EdgeId(*e));
    }
    Some(sum)
}
/// the same query through the core API directly (searchkit style): SearchApp::build_search_instance, then
/// SearchAlgorithm::run_vertex_oriented / run_edge_oriented with the ids the query means.  "agree" = same status and
/// same path, or a different path of the same cost (the queue's choice among equal priorities is unspecified).
fn core_compare(app: &Arc<CompassApp>, c: &Cfg, s: &Sem, r: &Resp, query: &Value) -> String {
    if !matches!(r.status.as_str(), "Ok" | "nopath" | "terminated" | "err") {
        return "n/a".into();
    }
    let req = if r.req.is_object() { r.req.clone() } else { query.clone() };
    let app2 = app.clone();
    let (o, d, eo) = (s.o, s.d, c.edge_oriented);
    let res = catch(AssertUnwindSafe(move || {
        let si = app2.search_app.build_search_instance(&req).map_err(|e| sk::classify_error(&e))?;
        let alg = &app2.search_app.search_algorithm;
        let out = if eo {
            alg.run_edge_oriented(EdgeId(o), d.map(EdgeId), &req, &Direction::Forward, &si)
        } else {
            alg.run_vertex_oriented(VertexId(o), d.map(VertexId), &req, &Direction::Forward, &si)
        };
        match out {
            Err(e) => Err(sk::classify_error(&e)),
            Ok(x) => Ok((x.routes.first().map(|rt| rt.iter().map(|et| et.edge_id.0).collect::<Vec<usize>>()), x.trees.iter().map(|t| t.len()).sum::<usize>(), si)),
        }
    }));
    match res {
        Err(_) => "differ:core-panic".into(),
        Ok(Err(cls)) => {
            let short = if cls.starts_with("err") { "err" } else { cls.as_str() };
            // an empty route of a successful search is an output-plugin error in the application
            if r.status == short {
                "agree".into()
            } else {
                format!("differ:core={}", cls)
            }
        }
        Ok(Ok((route, tree_size, si))) => {
            if r.status != "Ok" {
                // origin = destination: the core returns an empty route, the traversal plugin refuses it
                if route.as_ref().map(|p| p.is_empty()).unwrap_or(false) && r.status == "err" {
                    return "agree".into();
                }
                return format!("differ:core=Ok app={}", r.status);
            }
            match (route, r.has_route) {
                (None, false) => {
                    if r.has_tree && r.tree.len() != tree_size {
                        format!("differ:tree-size core={} app={}", tree_size, r.tree.len())
                    } else {
                        "agree".into()
                    }
                }
                (Some(p), true) => {
                    if p == r.path {
                        return "agree".into();
                    }
                    let mid = |x: &[usize]| -> Vec<usize> {
                        if eo && x.len() >= 3 { x[1..x.len() - 1].to_vec() } else { x.to_vec() }
                    };
                    match (path_cost(&si, &mid(&p)), path_cost(&si, &mid(&r.path))) {
                        (Some(a), Some(b)) if (a - b).abs() <= 1e-9 * a.abs().max(b.abs()) => "agree".into(),
                        _ => format!("differ:path core={:?}", p),
                    }
                }
                (a, b) => format!("differ:route core={} app={}", a.is_some(), b),
            }
        }
    }
}

// ------------------------------------------------------------------------------------------ app_walk

fn status_text(c: &Cfg, s: &Sem, r: &Resp, expected: bool) -> String {
    if r.status == "nopath" {
        let ends = if expected { nopath_ends(c, s) } else { r.ends };
        return match ends {
            Some((a, b)) => format!("nopath({},{})", a, b),
            None => "nopath(?)".into(),
        };
    }
    r.status.clone()
}
fn add_walk(cx: &mut Ctx, fam: &str, c: &Cfg, q: &Qry) {
    let id = cx.st.next_id();
    let app = match build(c, &cx.work.join(format!("c{}", id))) {
        Ok(a) => a,
        Err(e) => return build_failed(cx, fam, c, q, &e),
    };
    let query = query_value(c, q);
    let r = run_query(&app, &query);
    let s = semantics(c, q, &r);
    cx.last_err = r.err.clone();
    let core = core_compare(&app, c, &s, &r, &query);
    let mut tree: Vec<(Option<usize>, usize)> = r.tree.iter().map(|(p, e, _)| (*p, *e)).collect();
    tree.sort_by_key(|x| x.1);
    let counts = match (r.route_edges, r.tree_size) {
        (Some(a), Some(b)) => Some((a as usize, b as usize)),
        _ => None,
    };
    let shape = if !r.malformed.is_empty() {
        format!("bad:{}", r.malformed.join("+"))
    } else if matches!(r.status.as_str(), "RunErr" | "bad") {
        format!("bad:{}", r.err)
    } else if c.summary && r.status == "Ok" && counts.is_none() {
        "bad:summary counters missing".into()
    } else if r.status == "Ok" && c.tree_fmt.is_some() && !r.has_tree && !(c.edge_oriented && s.d == Some(s.o)) {
        "bad:no tree in the response".into()
    } else {
        "ok".into()
    };
    let body = format!(
        "path={} tree={} counts={}",
        if r.has_route { show_list(&r.path, |e| e.to_string()) } else { "None".into() },
        if r.has_tree { show_list(&tree, |(p, e)| format!("({},{})", p.map(|x| x.to_string()).unwrap_or("_".into()), e)) } else { "None".into() },
        show_opt(&counts, |(a, b)| format!("{},{}", a, b))
    );
    let payload = format!("{} {} core={} mm={} shape={}", status_text(c, &s, &r, false), body, core, s.mm, shape);
    let expected = format!("{} {} core=agree mm=ok shape=ok", status_text(c, &s, &r, true), body);
    let term = format!(
        "E2E.line_walk {}%Z {} {} {} {} {} {} {} {} {} {}",
        id,
        c.net.coords.len(),
        coq_edges(c),
        coq_bool(c.edge_oriented),
        s.o,
        nat_opt(&s.d),
        coq_string(&r.status),
        if r.has_tree { format!("[{}]", coq_list(&tree, |(p, e)| format!("({}, {})", nat_opt(p), e))) } else { "[]".into() },
        if r.has_route { format!("[{}]", coq_list(&r.path, |e| e.to_string())) } else { "[]".into() },
        coq_opt(&counts, |(a, b)| format!("({}, {})", a, if c.tree_fmt.is_some() { format!("(Some {})", b) } else { "None".to_string() })),
        coq_string(&expected)
    );
    common_hist(&mut cx.st, fam, c, q, &r);
    cx.st.count(&format!("tree_size:{}", (r.tree.len() + 3) / 4 * 4));
    cx.st.count(&format!("core:{}", core.split(':').next().unwrap_or("")));
    if r.path.len() >= 2 || r.tree.len() >= 3 || r.status != "Ok" {
        cx.st.mark_nontrivial(&format!("{}|{}", cfg_json(c), qry_json(q)));
    }
    let d = desc(cx, id, fam, c, q, &payload);
    cx.st.case(vec![term], vec![format!("I {} {}", id, payload)], d);
}

// ------------------------------------------------------------------------------------------ app_reach

fn add_reach(cx: &mut Ctx, fam: &str, c: &Cfg, q: &Qry) {
    let id = cx.st.next_id();
    let app = match build(c, &cx.work.join(format!("c{}", id))) {
        Ok(a) => a,
        Err(e) => return build_failed(cx, fam, c, q, &e),
    };
    let query = query_value(c, q);
    let r = run_query(&app, &query);
    let s = semantics(c, q, &r);
    cx.last_err = r.err.clone();
    let forbid = forbidden(c, q);
    let init = match c.state.first() {
        Some((_, Feat::Distance(_, i))) => *i,
        _ => 0.0,
    };
    // destination-less: (vertex = far end of the branch's edge, label = the branch's accumulated distance), by vertex
    let mut labels: Vec<(usize, f64)> = r
        .tree
        .iter()
        .map(|(_, e, st)| (c.net.edges.get(*e).map(|x| x.1).unwrap_or(usize::MAX >> 8), st.first().copied().unwrap_or(f64::NAN)))
        .collect();
    labels.sort_by(|a, b| a.0.cmp(&b.0).then(a.1.total_cmp(&b.1)));
    let text = if r.status != "Ok" {
        r.status.clone()
    } else if s.d.is_some() {
        format!("Ok routes={}", if r.has_route { format!("[{}]", show_list(&r.path, |e| e.to_string())) } else { "[]".into() })
    } else {
        format!(
            "Ok verts={} labels={}",
            if r.has_tree { format!("[{}]", show_list(&labels, |x| x.0.to_string())) } else { "[]".into() },
            if r.has_tree { format!("[{}]", show_list(&labels, |x| format!("{}:{}", x.0, show_f64(x.1)))) } else { "[]".into() }
        )
    };
    let mut payload = text.clone();
    if s.mm != "ok" {
        payload += &format!(" mm={}", s.mm);
    }
    if !r.malformed.is_empty() || matches!(r.status.as_str(), "RunErr" | "bad") {
        payload += &format!(" shape=bad:{}{}", r.malformed.join("+"), r.err);
    }
    let term = format!(
        "E2E.line_reach {}%Z {} {} {} {} {} {} {} {} {} {} {} {}",
        id,
        c.net.coords.len(),
        coq_edges(c),
        coq_list(&c.net.edges, |e| sk::coq_q(e.2)),
        coq_list(&forbid, |e| e.to_string()),
        sk::coq_q(init),
        coq_bool(c.edge_oriented),
        s.o,
        nat_opt(&s.d),
        coq_string(&r.status),
        if r.has_tree && s.d.is_none() {
            format!("[{}]", coq_list(&labels, |(v, l)| format!("({}, {})", v, if l.is_finite() { sk::coq_q(*l) } else { "(0 # 1)%Q".to_string() })))
        } else {
            "[]".into()
        },
        if r.has_route { format!("[{}]", coq_list(&r.path, |e| e.to_string())) } else { "[]".into() },
        coq_string(&text)
    );
    common_hist(&mut cx.st, fam, c, q, &r);
    cx.st.count(&format!("forbidden_edges:{}", if forbid.is_empty() { "none" } else if forbid.len() * 3 < c.net.edges.len() { "<1/3" } else { ">=1/3" }));
    if s.d.is_none() {
        cx.st.count(&format!("tree_size:{}", if r.tree.len() > 8 { "9+".to_string() } else { r.tree.len().to_string() }));
        cx.st.count(&format!("unreached_vertices:{}", if c.net.coords.len() > r.tree.len() + 1 { "some" } else { "none" }));
    }
    if r.status == "nopath" || (s.d.is_none() && r.tree.len() >= 2) || r.path.len() >= 2 {
        cx.st.mark_nontrivial(&format!("{}|{}", cfg_json(c), qry_json(q)));
    }
    let d = desc(cx, id, fam, c, q, &payload);
    cx.st.case(vec![term], vec![format!("I {} {}", id, payload)], d);
}


// ------------------------------------------------------------------------------------------ app_sums

fn cnum(x: f64) -> String {
    format!("(c {})", coq_f64(x))
}
fn coq_feat(f: &Feat) -> String {
    match f {
        Feat::Distance(u, i) => format!("StateOps.FDistance Units.{} {}", u, cnum(*i)),
        Feat::Time(u, i) => format!("StateOps.FTime Units.{} {}", u, cnum(*i)),
        Feat::Custom(t, i) => format!("StateOps.FCustom {} {}", coq_string(t), cnum(*i)),
    }
}
fn coq_feats(l: &[(String, Feat)]) -> String {
    coq_list(l, |(n, f)| format!("({}, {})", coq_string(n), coq_feat(f)))
}
/// the configuration + query as a TR.case_gen (same shape as harness/src/bin/c03.rs emits); the operation is a
/// placeholder that E2E.sums_case replaces by OForward <returned path>
fn coq_case(c: &Cfg, q: &Qry) -> String {
    let tm = match &c.tm {
        Tm::Dist(u) => format!("(TR.TDist Units.{})", u),
        Tm::Speed { su, du, tu } => format!(
            "(TR.TSpeed {} Units.{} {} {})",
            coq_list(&c.net.edges, |e| cnum(e.3)),
            su,
            // the application merges every configuration with config.default.toml, whose [traversal] section says
            // distance_unit = "kilometers": a speed_table section without a distance unit inherits that key
            format!("(Some Units.{})", du.clone().unwrap_or("Kilometers".into())),
            coq_opt(tu, |u| format!("Units.{}", u))
        ),
    };
    let am = match &c.turn {
        None => "TR.ANone".to_string(),
        Some(t) => format!(
            "(TR.ATurn {} {} Units.{} {})",
            coq_list(&t.headings, |(a, d)| format!("Traversal.Build_heading {} {}", coq_z(*a as i128), coq_opt(d, |x| coq_z(*x as i128)))),
            coq_list(&t.table, |(k, d)| format!("(Traversal.{}, {})", k, cnum(*d))),
            t.unit,
            coq_string("time")
        ),
    };
    let weights = q.weights.as_ref().unwrap_or(&c.weights);
    let cost = format!(
        "(TR.Build_cost_cfg {} {} [] Cost.ASum)",
        coq_list(weights, |(n, w)| format!("({}, {})", coq_string(n), cnum(*w))),
        coq_list(&c.vrates, |(n, r)| format!(
            "({}, {})",
            coq_string(n),
            match r {
                VRate::Raw => "Cost.VRaw".to_string(),
                VRate::Factor(f) => format!("Cost.VFactor {}", cnum(*f)),
            }
        ))
    );
    format!(
        "(fun (A : Type) (c : float -> A) => TR.Build_case_t {} {} {} {} {} {} {} (TR.OForward []) true)",
        coq_nat(c.net.coords.len()),
        coq_list(&c.net.edges, |(s, d, l, _, _)| format!("({}, {}, {})", coq_nat(*s), coq_nat(*d), cnum(*l))),
        coq_feats(&c.state),
        coq_feats(&q.user),
        tm,
        am,
        cost
    )
}
fn show_kv(kv: &[(String, f64)]) -> String {
    format!("{{{}}}", kv.iter().map(|(k, v)| format!("{}:{}", k, show_f64(*v))).collect::<Vec<_>>().join(","))
}
fn add_sums(cx: &mut Ctx, fam: &str, c: &Cfg, q: &Qry) {
    let id = cx.st.next_id();
    let app = match build(c, &cx.work.join(format!("c{}", id))) {
        Ok(a) => a,
        Err(e) => return build_failed(cx, fam, c, q, &e),
    };
    let query = query_value(c, q);
    let r = run_query(&app, &query);
    let s = semantics(c, q, &r);
    cx.last_err = r.err.clone();
    common_hist(&mut cx.st, fam, c, q, &r);
    if let Tm::Speed { su, du, tu } = &c.tm {
        cx.st.count(&format!("units:{}/{}/{}", su, du.clone().unwrap_or("default".into()), tu.clone().unwrap_or("default".into())));
    }
    if let Tm::Dist(u) = &c.tm {
        cx.st.count(&format!("units:{}", u));
    }
    if let Some(t) = &c.turn {
        cx.st.count(&format!("delay_unit:{}", t.unit));
    }
    let judged = r.status == "Ok" && r.has_route && !r.recs.is_empty() && r.recs.len() == r.path.len() && r.malformed.is_empty() && s.mm == "ok";
    let (terms, payload) = if judged {
        // the declared initial state of the instance this query builds (the response does not show it)
        let app2 = app.clone();
        let q2 = if r.req.is_object() { r.req.clone() } else { query.clone() };
        let init: Vec<f64> = catch(AssertUnwindSafe(move || app2.search_app.build_search_instance(&q2).ok().and_then(|si| si.state_model.initial_state().ok()).map(|v| v.iter().map(|x| x.0).collect::<Vec<f64>>())))
            .ok()
            .flatten()
            .unwrap_or_default();
        let totals: Vec<f64> = r.recs.iter().map(|et| et.total_cost().as_f64()).collect();
        let route = show_list(&r.recs, |et| format!("{}:{}:{}:{}", et.edge_id.0, show_f64(et.access_cost.as_f64()), show_f64(et.traversal_cost.as_f64()), show_list(&et.result_state, |x| show_f64(x.0))));
        let payload = format!("route={}/{} sum={} cost={}", route, show_list(&totals, |x| show_f64(*x)), show_kv(&r.summary), show_kv(&r.cost));
        let gen = coq_case(c, q);
        let path = coq_list(&r.path, |e| coq_nat(*e));
        let recs = coq_list(&r.recs, |et| {
            format!("Traversal.Build_etrav {} {} {} {}", coq_nat(et.edge_id.0), coq_f64(et.access_cost.as_f64()), coq_f64(et.traversal_cost.as_f64()), coq_list(&et.result_state, |x| coq_f64(x.0)))
        });
        let kv = |l: &[(String, f64)]| coq_list(l, |(k, v)| format!("({}, {})", coq_string(k), coq_f64(*v)));
        (
            vec![
                format!("E2E.line_sums_M {}%Z {} {}", id, gen, path),
                format!("E2E.line_sums_S {}%Z {} {} {} {} {} {} {}", id, gen, path, coq_list(&init, |x| coq_f64(*x)), recs, coq_list(&totals, |x| coq_f64(*x)), kv(&r.summary), kv(&r.cost)),
            ],
            payload,
        )
    } else {
        // no route to judge: a route is expected exactly when the destination is reachable (plain search, no frontier)
        let reach = s.d.map(|d| bfs(c, &[], s.o).get(d).copied().unwrap_or(false) && d != s.o).unwrap_or(false);
        let expected = if reach { "a judged route (reachable destination)" } else { "nopath" };
        let mut payload = r.status.clone();
        if r.status == "Ok" {
            payload = format!("Ok route={} records={} mm={} shape={}", r.has_route, r.recs.len(), s.mm, r.malformed.join("+"));
        }
        (vec![format!("E2E.line_echo \"M\" {}%Z {}", id, coq_string(expected)), format!("E2E.line_echo \"S\" {}%Z {}", id, coq_string(expected))], payload)
    };
    let unit_differs = match (&c.tm, c.state.first(), q.user.first()) {
        (_, _, Some(_)) => true,
        (Tm::Speed { du, tu, .. }, _, _) => du.is_some() || tu.is_some(),
        (Tm::Dist(u), Some((_, Feat::Distance(fu, _))), _) => u != fu,
        _ => false,
    };
    let delay = r.recs.iter().skip(1).any(|et| et.access_cost.as_f64() > 1e-9);
    if judged {
        cx.st.count(if delay { "turn_delay_charged" } else { "no_turn_delay_charged" });
    }
    if judged && r.path.len() >= 2 && (unit_differs || delay) {
        cx.st.mark_nontrivial(&format!("{}|{}", cfg_json(c), qry_json(q)));
    }
    let d = desc(cx, id, fam, c, q, &payload);
    cx.st.case(terms, vec![format!("I {} {}", id, payload)], d);
}


// ------------------------------------------------------------------------------------------ deterministic families

/// searchkit's boundary worlds that a configuration file can express (forward, Dijkstra / default A*, no turn /
/// failure tables, no limit): vertex i on grid cell i, length = 1000 * table cost, forbidden edges = road class 1
fn converted_boundaries(variety: bool) -> Vec<(String, Cfg, Qry)> {
    let mut out = vec![];
    for (i, (name, w, q)) in sk::boundary_cases().into_iter().enumerate() {
        let alg_ok = matches!(q.alg, sk::Alg::Dijkstra | sk::Alg::AStar(None));
        if q.dir != sk::Dir::Forward || !alg_ok || !w.turn.is_empty() || !w.fturn.is_empty() || !w.ferr.is_empty() || !w.terr.is_empty() || w.term != sk::Term::Unlimited || w.h.iter().any(|x| *x != 0.0) || w.init != 0.0 || q.query_wf.is_some() || w.n > 64 {
            continue;
        }
        let edges = w.edges.iter().enumerate().map(|(e, (s, d))| (*s, *d, (w.cost[e] * 1000.0).round().max(1.0), SPEEDS[e % SPEEDS.len()], if w.forbid.contains(&e) { 1u8 } else { 0u8 })).collect();
        let net = Net { coords: (0..w.n).map(cell).collect(), edges };
        let mut c = dist_cfg(net, "Meters", 0.0);
        c.astar = q.alg != sk::Alg::Dijkstra;
        c.edge_oriented = q.orient == sk::Orient::Edge;
        let mut qq = plain_q(q.source, q.target);
        if !w.forbid.is_empty() {
            c.road_class = true;
            qq.classes = Some(vec![0]);
        }
        if variety {
            c.route_fmt = if i % 3 == 0 { "json".into() } else { "edge_id".into() };
            c.tree_fmt = match i % 4 {
                0 => Some("edge_id".into()),
                3 => None,
                _ => Some("json".into()),
            };
            c.summary = i % 5 != 0;
            let in_range = q.source < (if c.edge_oriented { w.edges.len() } else { w.n }) && q.target.map(|t| t < (if c.edge_oriented { w.edges.len() } else { w.n })).unwrap_or(true);
            if i % 7 == 3 && in_range {
                c.input = if c.edge_oriented { Inp::Edge } else { Inp::Vertex };
            }
        }
        out.push((name, c, qq));
    }
    out
}

fn reach_shapes() -> Vec<(String, Cfg, Qry)> {
    let mut out = vec![];
    for astar in [false, true] {
        let mut mk = |name: &str, n: usize, es: &[(usize, usize)], forbid: &[usize], eo: bool, o: usize, d: Option<usize>, classes: Option<Vec<u8>>| {
            let coords: Vec<(f64, f64)> = (0..n).map(cell).collect();
            let net = net_of(coords, es, |i| 1.1 + 0.3 * (i % 3) as f64, |i| SPEEDS[i % 8], |i| if forbid.contains(&i) { 1 } else { 0 });
            let mut c = dist_cfg(net, "Meters", if o % 2 == 1 { 1000.0 } else { 0.0 });
            c.astar = astar;
            c.road_class = true;
            c.edge_oriented = eo;
            let mut q = plain_q(o, d);
            q.classes = classes;
            out.push((name.to_string(), c, q));
        };
        let only0 = Some(vec![0u8]);
        mk("forbidden_bridge", 4, &[(0, 1), (1, 2), (2, 3)], &[1], false, 0, Some(3), only0.clone());
        mk("forbidden_bridge_no_target", 4, &[(0, 1), (1, 2), (2, 3)], &[1], false, 0, None, only0.clone());
        mk("forbidden_parallel", 3, &[(0, 1), (0, 1), (1, 2)], &[0], false, 0, Some(2), only0.clone());
        mk("forbidden_parallel_no_target", 3, &[(0, 1), (0, 1), (1, 2)], &[0], false, 0, None, only0.clone());
        mk("forbidden_first_hop", 3, &[(0, 1), (0, 2), (1, 2)], &[0, 1], false, 0, Some(2), only0.clone());
        mk("forbidden_first_hop_one", 3, &[(0, 1), (0, 2), (1, 2)], &[0], false, 0, Some(1), only0.clone());
        mk("forbidden_first_hop_no_target", 3, &[(0, 1), (0, 2), (1, 2)], &[0], false, 0, None, only0.clone());
        mk("forbidden_last_hop", 3, &[(0, 1), (1, 2)], &[1], false, 0, Some(2), only0.clone());
        mk("everything_forbidden", 3, &[(0, 1), (1, 2)], &[], false, 0, Some(2), Some(vec![]));
        mk("everything_forbidden_no_target", 3, &[(0, 1), (1, 2)], &[], false, 0, None, Some(vec![]));
        mk("other_class_only", 3, &[(0, 1), (1, 2)], &[1], false, 0, Some(2), Some(vec![1, 2]));
        mk("no_class_list_in_query", 3, &[(0, 1), (1, 2)], &[1], false, 0, Some(2), None);
        mk("several_classes", 3, &[(0, 1), (1, 2)], &[1], false, 0, Some(2), Some(vec![3, 1, 0]));
        mk("two_components", 4, &[(0, 1), (1, 0), (2, 3), (3, 2)], &[], false, 1, Some(3), only0.clone());
        mk("two_components_no_target", 4, &[(0, 1), (1, 0), (2, 3), (3, 2)], &[], false, 1, None, only0.clone());
        mk("one_way_street_against", 3, &[(0, 1), (1, 2)], &[], false, 2, Some(0), only0.clone());
        let chain = [(0usize, 1usize), (1, 2), (2, 3), (3, 4)];
        mk("eo_forbidden_between", 5, &chain, &[1], true, 0, Some(3), only0.clone());
        mk("eo_forbidden_origin_edge", 5, &chain, &[0], true, 0, Some(3), only0.clone());
        mk("eo_forbidden_destination_edge", 5, &chain, &[3], true, 0, Some(3), only0.clone());
        mk("eo_adjacent_forbidden_destination", 5, &chain, &[1], true, 0, Some(1), only0.clone());
        mk("eo_forbidden_no_target", 5, &chain, &[2], true, 0, None, only0.clone());
        mk("eo_unreachable_backwards", 5, &chain, &[], true, 3, Some(0), only0.clone());
    }
    out
}

fn zigzag() -> (Vec<(f64, f64)>, Vec<(usize, usize)>) {
    // 0 -> 1 -> 2 -> 3 -> 4 with a right, a left and a right turn, both directions, a slow direct edge 0 -> 4,
    // a parallel twin of the first edge, a self loop, an isolated vertex 5
    let coords = vec![cell(0), cell(1), cell(9), cell(10), cell(18), cell(40)];
    let edges = vec![(0, 1), (1, 2), (2, 3), (3, 4), (1, 0), (2, 1), (3, 2), (4, 3), (0, 4), (0, 1), (2, 2)];
    (coords, edges)
}
fn zig_net() -> Net {
    let (coords, edges) = zigzag();
    net_of(coords, &edges, |i| if i == 8 { 3.0 } else if i == 9 { 1.5 } else { 1.05 + 0.07 * i as f64 }, |i| SPEEDS[(i * 3) % 8], |_| 0)
}
fn sums_shapes() -> Vec<(String, Cfg, Qry)> {
    let mut out: Vec<(String, Cfg, Qry)> = vec![];
    let net = zig_net();
    let json_route = |mut c: Cfg| {
        c.route_fmt = "json".into();
        c
    };
    for (i, u) in DIST.iter().enumerate() {
        let mut c = json_route(dist_cfg(net.clone(), u, 0.0));
        c.astar = i % 2 == 0;
        out.push(("distance_unit".into(), c, plain_q(0, Some(4))));
        // feature unit differs from the model's unit, non-zero declared initial value
        let mut c = json_route(dist_cfg(net.clone(), "Kilometers", 0.0));
        c.state = vec![("distance".into(), Feat::Distance(u.to_string(), 12.5))];
        c.astar = i % 2 == 1;
        out.push(("distance_feature_unit".into(), c, plain_q(0, Some(4))));
    }
    let mut k = 0;
    for su in SPEED {
        for du in [None, Some("Miles")] {
            for tu in [None, Some("Minutes"), Some("Hours")] {
                let mut c = json_route(base_cfg(net.clone()));
                c.tm = Tm::Speed { su: su.into(), du: du.map(|x| x.to_string()), tu: tu.map(|x| x.to_string()) };
                c.astar = k % 2 == 0;
                c.weights = vec![("distance".into(), (k % 3) as f64), ("time".into(), 1.0)];
                c.summary = k % 2 == 1;
                out.push(("speed_units".into(), c, plain_q(0, Some(4))));
                k += 1;
            }
        }
    }
    for (i, u) in TIME.iter().enumerate() {
        let mut c = json_route(base_cfg(net.clone()));
        c.tm = Tm::Speed { su: "KilometersPerHour".into(), du: None, tu: Some(TIME[(i + 1) % 4].into()) };
        c.turn = Some(TurnCfg { headings: geo_headings(&net), table: full_turn_table(1.5), unit: u.to_string() });
        c.astar = i % 2 == 0;
        out.push(("turn_delay_unit".into(), c.clone(), plain_q(0, Some(4))));
        if i == 0 {
            out.push(("turn_delay_back".into(), c, plain_q(4, Some(0))));
        }
    }
    // the query's own state features (units and initial values), weights, weight factor
    let mut c = json_route(base_cfg(net.clone()));
    c.turn = Some(TurnCfg { headings: geo_headings(&net), table: full_turn_table(4.0), unit: "Seconds".into() });
    let mut q = plain_q(0, Some(4));
    q.user = vec![("distance".into(), Feat::Distance("Miles".into(), 5.0)), ("time".into(), Feat::Time("Hours".into(), 0.25))];
    out.push(("query_state_features".into(), c.clone(), q));
    let mut q = plain_q(0, Some(3));
    q.user = vec![("time".into(), Feat::Time("Milliseconds".into(), 0.0))];
    q.weights = Some(vec![("distance".into(), 1.0)]);
    out.push(("query_weights".into(), c.clone(), q));
    let mut q = plain_q(1, Some(4));
    q.wf = Some(0.5);
    out.push(("query_weight_factor".into(), c.clone(), q));
    let mut c2 = c.clone();
    c2.vrates = vec![("distance".into(), VRate::Factor(0.25)), ("time".into(), VRate::Factor(3.0))];
    c2.weights = vec![("distance".into(), 1.0), ("time".into(), 1.0)];
    out.push(("vehicle_rate_factor".into(), c2, plain_q(0, Some(4))));
    // extra configured feature nobody writes to
    let mut c3 = c.clone();
    c3.state = vec![("soc".into(), Feat::Custom("soc".into(), 0.5))];
    out.push(("extra_feature".into(), c3, plain_q(0, Some(4))));
    // one edge; the cheaper of two parallel edges; coordinates instead of ids; no route
    out.push(("single_edge".into(), c.clone(), plain_q(1, Some(2))));
    out.push(("parallel_edges".into(), c.clone(), plain_q(0, Some(1))));
    let mut c4 = c.clone();
    c4.input = Inp::Vertex;
    out.push(("map_matched".into(), c4, plain_q(4, Some(1))));
    out.push(("unreachable".into(), c.clone(), plain_q(0, Some(5))));
    let mut c5 = json_route(dist_cfg(net.clone(), "Feet", 100.0));
    c5.input = Inp::Vertex;
    c5.astar = false;
    out.push(("map_matched".into(), c5, plain_q(3, Some(0))));
    out
}

// ------------------------------------------------------------------------------------------ random cases

fn gen_turn(r: &mut Rng, net: &Net) -> TurnCfg {
    let headings = if r.chance(1, 2) {
        geo_headings(net)
    } else {
        net.edges.iter().map(|_| (r.below(360) as i64, if r.chance(1, 3) { Some(r.below(360) as i64) } else { None })).collect()
    };
    let table = TURNS.iter().enumerate().map(|(i, t)| (t.to_string(), if i == 0 && r.chance(3, 4) { 0.0 } else { *r.pick(&[0.0, 0.5, 1.0, 2.5, 5.0, 10.0, 30.0]) })).collect();
    TurnCfg { headings, table, unit: r.pick(&TIME).to_string() }
}
/// hop distance from `from` over permitted edges (None = unreachable)
fn depths(c: &Cfg, forbid: &[usize], from: usize) -> Vec<Option<usize>> {
    let n = c.net.coords.len();
    let mut dep: Vec<Option<usize>> = vec![None; n];
    if from >= n {
        return dep;
    }
    dep[from] = Some(0);
    let mut queue = std::collections::VecDeque::from([from]);
    while let Some(v) = queue.pop_front() {
        for (i, (s, d, _, _, _)) in c.net.edges.iter().enumerate() {
            if *s == v && *d < n && dep[*d].is_none() && !forbid.contains(&i) {
                dep[*d] = Some(dep[v].unwrap() + 1);
                queue.push_back(*d);
            }
        }
    }
    dep
}
/// a destination for origin `o`: with probability reach_pct % one that can be reached (half of the time one of the
/// farthest in hops), otherwise any other id
fn pick_target(r: &mut Rng, c: &Cfg, forbid: &[usize], o: usize, reach_pct: u64) -> usize {
    let dom = if c.edge_oriented { c.net.edges.len() } else { c.net.coords.len() };
    let start = if c.edge_oriented { c.net.edges[o].1 } else { o };
    let dep = depths(c, forbid, start);
    let mut cands: Vec<(usize, usize)> = if c.edge_oriented {
        (0..dom).filter(|e| *e != o).filter_map(|e| dep[c.net.edges[e].0].map(|k| (e, k))).collect()
    } else {
        (0..dom).filter(|v| *v != o).filter_map(|v| dep[v].map(|k| (v, k))).collect()
    };
    if !cands.is_empty() && r.below(100) < reach_pct {
        if r.chance(1, 2) {
            let far = cands.iter().map(|x| x.1).max().unwrap();
            cands.retain(|x| x.1 + 1 >= far);
        }
        r.pick(&cands).0
    } else {
        let t = r.below(dom as u64) as usize;
        if t == o { (t + 1) % dom } else { t }
    }
}
/// an origin from which something can be reached, when there is one (a few tries)
fn pick_origin(r: &mut Rng, c: &Cfg, forbid: &[usize]) -> usize {
    let dom = if c.edge_oriented { c.net.edges.len() } else { c.net.coords.len() };
    let mut best = (r.below(dom as u64) as usize, 0usize);
    for _ in 0..8 {
        let o = r.below(dom as u64) as usize;
        let start = if c.edge_oriented { c.net.edges[o].1 } else { o };
        let k = depths(c, forbid, start).iter().filter(|x| x.is_some()).count();
        if k > best.1 {
            best = (o, k);
        }
    }
    best.0
}
fn gen_case(r: &mut Rng, stream: &str) -> (String, Cfg, Qry, Vec<&'static str>) {
    let sums = stream == "app_sums";
    let consistent = sums || r.chance(1, 2);
    let (net, flags) = gen_net(r, consistent);
    let mut c = base_cfg(net);
    c.astar = r.chance(1, 2);
    if c.astar && r.chance(1, 4) {
        c.cfg_wf = Some(if sums { *r.pick(&[0.0, 0.5, 1.0]) } else { *r.pick(&[0.0, 0.5, 1.0, 3.0]) });
    }
    if r.chance(2, 5) {
        let u = *r.pick(&DIST);
        c = Cfg { astar: c.astar, cfg_wf: c.cfg_wf, ..dist_cfg(c.net.clone(), u, *r.pick(&[0.0, 0.0, 12.5, 1000.0])) };
        if r.chance(1, 4) {
            let init = if let Feat::Distance(_, i) = c.state[0].1 { i } else { 0.0 };
            c.state = vec![("distance".into(), Feat::Distance(r.pick(&DIST).to_string(), init))];
        }
        if r.chance(1, 5) {
            c.vrates = vec![("distance".into(), VRate::Factor(*r.pick(&[0.5, 2.0, 0.125])))];
        }
    } else {
        c.tm = Tm::Speed {
            su: r.pick(&SPEED).to_string(),
            du: if r.chance(1, 2) { Some(r.pick(&DIST).to_string()) } else { None },
            tu: if r.chance(1, 2) { Some(r.pick(&TIME).to_string()) } else { None },
        };
        c.weights = match r.below(6) {
            0 => vec![("time".into(), 1.0)],
            1 => vec![("distance".into(), 1.0)],
            2 => vec![("distance".into(), 1.0), ("time".into(), 1.0)],
            3 => vec![("distance".into(), 0.5), ("time".into(), 2.0)],
            4 => vec![("distance".into(), 2.0), ("time".into(), 0.25)],
            _ => vec![("distance".into(), 0.0), ("time".into(), 1.0)],
        };
        if r.chance(1, 5) {
            c.vrates = vec![("distance".into(), VRate::Factor(*r.pick(&[0.5, 2.0]))), ("time".into(), VRate::Factor(*r.pick(&[0.25, 3.0])))];
        }
        if r.chance(1, 5) {
            c.state = vec![("soc".into(), Feat::Custom("soc".into(), 0.5))];
        }
        if r.chance(1, 2) {
            c.turn = Some(gen_turn(r, &c.net));
        }
    }
    c.summary = r.chance(3, 4);
    let mut q = plain_q(0, None);
    if sums {
        c.route_fmt = "json".into();
        c.tree_fmt = if r.chance(1, 3) { Some("json".into()) } else { None };
        c.input = if r.chance(1, 4) { Inp::Vertex } else { Inp::None };
    } else {
        c.route_fmt = if r.chance(3, 10) { "json".into() } else { "edge_id".into() };
        c.tree_fmt = match r.below(4) {
            0 => None,
            1 => Some("edge_id".into()),
            _ => Some("json".into()),
        };
        c.edge_oriented = r.chance(2, 5) && !c.net.edges.is_empty();
        c.road_class = r.chance(if stream == "app_reach" { 3 } else { 1 }, 5);
        if r.chance(1, 4) {
            c.input = if c.edge_oriented { Inp::Edge } else { Inp::Vertex };
        }
        if c.road_class && r.chance(4, 5) {
            let k = r.below(5);
            let mut cl: Vec<u8> = (0..4u8).filter(|_| r.below(4) < k).collect();
            if r.chance(1, 6) {
                cl.push(cl.first().copied().unwrap_or(2));
            }
            q.classes = Some(cl);
        }
    }
    let dom = if c.edge_oriented { c.net.edges.len() } else { c.net.coords.len() };
    let forbid = forbidden(&c, &q);
    q.o = if sums || r.chance(3, 4) { pick_origin(r, &c, &forbid) } else { r.below(dom as u64) as usize };
    let with_dest = sums || !r.chance(if stream == "app_reach" { 1 } else { 1 }, if stream == "app_reach" { 3 } else { 6 });
    if with_dest {
        q.d = Some(pick_target(r, &c, &forbid, q.o, if sums { 96 } else { 75 }));
    } else if stream == "app_reach" {
        // the labels of a destination-less tree are least distances: distance model in meters, distance the only cost
        let init = *r.pick(&[0.0, 1000.0]);
        let keep = c.clone();
        c = Cfg { astar: keep.astar, cfg_wf: keep.cfg_wf, road_class: keep.road_class, edge_oriented: keep.edge_oriented, input: keep.input, route_fmt: keep.route_fmt, summary: keep.summary, ..dist_cfg(keep.net, "Meters", init) };
        c.tree_fmt = Some("json".into());
    }
    // query-level overrides
    if r.chance(1, 5) {
        match &c.tm {
            // a query can only override features the traversal / access MODELS declare; the distance model declares
            // none (its feature comes from [state]), such a query is answered with an error (kept rare: 1 in 4)
            Tm::Dist(_) => {
                if r.chance(1, 4) && stream == "app_walk" {
                    q.user = vec![("distance".into(), Feat::Distance(r.pick(&DIST).to_string(), *r.pick(&[0.0, 3.0])))]
                }
            }
            Tm::Speed { .. } => {
                if r.chance(2, 3) {
                    q.user.push(("distance".into(), Feat::Distance(r.pick(&DIST).to_string(), *r.pick(&[0.0, 7.5]))));
                }
                if q.user.is_empty() || r.chance(1, 2) {
                    q.user.push(("time".into(), Feat::Time(r.pick(&TIME).to_string(), *r.pick(&[0.0, 0.25]))));
                }
            }
        }
        if !with_dest && stream == "app_reach" {
            q.user.clear();
        }
    }
    if r.chance(1, 6) && matches!(c.tm, Tm::Speed { .. }) {
        q.weights = Some(match r.below(3) {
            0 => vec![("distance".into(), 1.0)],
            1 => vec![("time".into(), 1.0), ("distance".into(), 0.5)],
            _ => vec![("time".into(), 2.0)],
        });
    }
    if r.chance(1, 10) {
        q.wf = Some(if sums { *r.pick(&[0.0, 0.5, 1.0]) } else { *r.pick(&[0.0, 0.5, 1.0, 3.0]) });
    }
    (if consistent { "random_consistent".to_string() } else { "random_any_length".to_string() }, c, q, flags)
}


// ------------------------------------------------------------------------------------------ probe / main

fn probe(out: &Path) {
    let grid: Vec<(usize, usize)> = vec![(0, 1), (1, 0), (1, 2), (2, 1), (0, 8), (8, 0), (1, 9), (9, 1), (8, 9), (9, 8), (9, 10), (10, 9), (2, 10), (10, 2), (3, 3), (0, 1)];
    let net = simple_net(16, &grid);
    let mut cases: Vec<(&str, Cfg, Qry)> = vec![];
    let mut c = base_cfg(net.clone());
    c.route_fmt = "json".into();
    c.turn = Some(TurnCfg { headings: geo_headings(&net), table: full_turn_table(2.0), unit: "Seconds".into() });
    cases.push(("speed+turn json", c.clone(), plain_q(0, Some(10))));
    cases.push(("no destination", c.clone(), plain_q(0, None)));
    cases.push(("unreachable", c.clone(), plain_q(0, Some(5))));
    cases.push(("same", c.clone(), plain_q(0, Some(0))));
    let mut d = dist_cfg(net.clone(), "Kilometers", 0.0);
    d.astar = false;
    d.tree_fmt = Some("edge_id".into());
    cases.push(("distance dijkstra", d.clone(), plain_q(0, Some(10))));
    d.edge_oriented = true;
    cases.push(("edge oriented", d.clone(), plain_q(0, Some(11))));
    cases.push(("edge oriented same", d.clone(), plain_q(0, Some(0))));
    cases.push(("edge oriented adjacent", d.clone(), plain_q(0, Some(2))));
    d.input = Inp::Edge;
    cases.push(("edge matched", d.clone(), plain_q(4, Some(11))));
    let mut v = base_cfg(net.clone());
    v.input = Inp::Vertex;
    v.road_class = true;
    let mut q = plain_q(0, Some(10));
    q.classes = Some(vec![0]);
    q.user = vec![("distance".into(), Feat::Distance("Miles".into(), 5.0))];
    q.weights = Some(vec![("distance".into(), 1.0)]);
    cases.push(("vertex matched, classes, user features", v, q));
    for (i, (name, c, q)) in cases.iter().enumerate() {
        let dir = out.join(format!("p{}", i));
        match build(c, &dir) {
            Err(e) => println!("== {}: {}\n{}", name, e, std::fs::read_to_string(dir.join("compass.toml")).unwrap_or_default()),
            Ok(app) => {
                let qv = query_value(c, q);
                let r = run_query(&app, &qv);
                println!("== {}: query {}\n   status={} err={:?} ends={:?} path={:?} tree={} summary={:?} cost={:?} re={:?} ts={:?} malformed={:?}", name, qv, r.status, r.err, r.ends, r.path, r.tree.len(), r.summary, r.cost, r.route_edges, r.tree_size, r.malformed);
                println!("   raw={}", serde_json::to_string(&r.raw).unwrap().chars().take(1500).collect::<String>());
            }
        }
    }
}

fn add(cx: &mut Ctx, fam: &str, c: &Cfg, q: &Qry) {
    match cx.stream.as_str() {
        "app_walk" => add_walk(cx, fam, c, q),
        "app_sums" => add_sums(cx, fam, c, q),
        _ => add_reach(cx, fam, c, q),
    }
}

fn main() {
    silence_panics();
    let a = parse_args();
    if a.stream == "probe" {
        probe(&a.out);
        std::process::exit(0);
    }
    if !matches!(a.stream.as_str(), "app_walk" | "app_sums" | "app_reach") {
        eprintln!("unknown stream {}", a.stream);
        std::process::exit(2);
    }
    let mut cx = Ctx { last_err: String::new(), st: Stream::new(&a.out, &a.stream, HEADER, a.shards), work: a.out.join("apps"), stream: a.stream.clone() };
    if let Some(p) = &a.replay {
        cx.st.full = true;
        let v: Value = serde_json::from_str(&std::fs::read_to_string(p).unwrap()).unwrap();
        let cases: Vec<Value> = match v.get("cases") {
            Some(cs) => cs.as_array().unwrap().clone(),
            None => vec![v["case"].clone()],
        };
        for case in &cases {
            let c = cfg_from(&case["cfg"]);
            let q = qry_from(&case["qry"]);
            let fam = case.get("corpus").and_then(|x| x.as_str()).map(|x| format!("corpus:{}", x)).unwrap_or("replay".to_string());
            add(&mut cx, &fam, &c, &q);
        }
        cx.st.finish();
        let _ = std::fs::remove_dir_all(&cx.work);
        std::process::exit(0);
    }
    // ---- deterministic boundary families first
    let fams: Vec<(String, Cfg, Qry)> = match a.stream.as_str() {
        "app_walk" => converted_boundaries(true),
        "app_sums" => sums_shapes(),
        _ => reach_shapes().into_iter().chain(converted_boundaries(false)).collect(),
    };
    for (name, c, q) in &fams {
        if cx.st.next_id() >= a.n {
            break;
        }
        add(&mut cx, name, c, q);
    }
    // ---- random networks, a few queries each
    let mut rng = Rng::new(a.seed);
    while cx.st.next_id() < a.n {
        let mut r = rng.fork();
        let (fam, c, q, flags) = gen_case(&mut r, &a.stream);
        for f in &flags {
            cx.st.count(&format!("forced:{}", f));
        }
        add(&mut cx, &fam, &c, &q);
    }
    cx.st.finish();
    let _ = std::fs::remove_dir_all(&cx.work);
    // abandoned watchdog threads (if any) die here
    std::process::exit(0);
}
