//! Scratch probe for the C12-related defects (empty batch, degenerate grid search, inject on a
//! non-object, ill-typed weight estimate). Prints one line per scenario.
use routee_compass::app::compass::compass_app::CompassApp;
use routee_compass::app::compass::config::compass_app_builder::CompassAppBuilder;
use serde_json::json;
use std::sync::mpsc;
use std::time::Duration;

fn app(plugins: &str, dir: &str) -> CompassApp {
    let t = format!(
        r#"
parallelism = 2
[graph]
edge_list_input_file = "{d}/test_edges.csv"
vertex_list_input_file = "{d}/test_vertices.csv"
verbose = false
[traversal]
type = "distance"
distance_unit = "kilometers"
[plugin]
input_plugins = [{p}]
output_plugins = []
"#,
        d = dir,
        p = plugins
    );
    let conf = format!("{}/speeds_test.toml", dir);
    CompassApp::try_from_config_toml_string(t, conf, &CompassAppBuilder::default()).unwrap()
}

fn run(name: &str, plugins: &'static str, dir: String, batch: Vec<serde_json::Value>) {
    let (tx, rx) = mpsc::channel();
    let n = name.to_string();
    std::thread::spawn(move || {
        let r = std::panic::catch_unwind(|| {
            let a = app(plugins, &dir);
            a.run(batch, None).map(|v| format!("{} responses: {}", v.len(), serde_json::to_string(&v).unwrap().chars().take(300).collect::<String>())).map_err(|e| e.to_string())
        });
        let _ = tx.send(format!("{:?}", r.map_err(|_| "PANIC")));
    });
    match rx.recv_timeout(Duration::from_secs(10)) {
        Ok(s) => println!("{}: {}", n, s),
        Err(_) => println!("{}: HANG (10 s)", n),
    }
}

fn main() {
    std::panic::set_hook(Box::new(|_| {}));
    let repo = std::env::args().nth(1).unwrap_or("/repo".into());
    let dir = format!("{}/rust/routee-compass/src/app/compass/test/speeds_test", repo);
    let q = json!({"origin_vertex": 0, "destination_vertex": 2});
    run("empty_batch", "", dir.clone(), vec![]);
    let mut g = q.clone();
    g["grid_search"] = json!({});
    run("grid_empty_object", r#"{ type = "grid_search" }"#, dir.clone(), vec![g, q.clone()]);
    let mut g = q.clone();
    g["grid_search"] = json!({"a": []});
    run("grid_empty_array", r#"{ type = "grid_search" }"#, dir.clone(), vec![g, q.clone()]);
    run("inject_non_object", r#"{ type = "inject", key = "k", value = "1", format = "json" }"#, dir.clone(), vec![json!(5), q.clone()]);
    let mut w = q.clone();
    w["query_weight_estimate"] = json!("abc");
    run("bad_weight_estimate", "", dir.clone(), vec![w, q.clone()]);
}
