//! Shared plumbing for the per-property harness binaries (src/bin/cXX.rs).
//! One PRNG, Gallina term emitters, canonical result printers identical to coq/Base/Show.v.
pub mod appkit;
pub mod searchkit;

use std::fmt::Write as _;
use std::fs;
use std::io::Write as _;
use std::path::{Path, PathBuf};

/// SplitMix64: every random choice of a run derives from VERIF_SEED.
#[derive(Clone)]
pub struct Rng(pub u64);
impl Rng {
    pub fn new(seed: u64) -> Rng {
        Rng(seed ^ 0x9E37_79B9_7F4A_7C15)
    }
    /// independent sub-stream (per case), so one case replays alone from its own seed
    pub fn fork(&mut self) -> Rng {
        Rng(self.next_u64())
    }
    pub fn next_u64(&mut self) -> u64 {
        self.0 = self.0.wrapping_add(0x9E37_79B9_7F4A_7C15);
        let mut z = self.0;
        z = (z ^ (z >> 30)).wrapping_mul(0xBF58_476D_1CE4_E5B9);
        z = (z ^ (z >> 27)).wrapping_mul(0x94D0_49BB_1331_11EB);
        z ^ (z >> 31)
    }
    /// uniform in 0..n (n > 0)
    pub fn below(&mut self, n: u64) -> u64 {
        self.next_u64() % n
    }
    pub fn range(&mut self, lo: i64, hi_incl: i64) -> i64 {
        lo + self.below((hi_incl - lo + 1) as u64) as i64
    }
    pub fn chance(&mut self, num: u64, den: u64) -> bool {
        self.below(den) < num
    }
    pub fn pick<'a, T>(&mut self, xs: &'a [T]) -> &'a T {
        &xs[self.below(xs.len() as u64) as usize]
    }
    pub fn unit_f64(&mut self) -> f64 {
        (self.next_u64() >> 11) as f64 / (1u64 << 53) as f64
    }
    pub fn shuffle<T>(&mut self, xs: &mut [T]) {
        for i in (1..xs.len()).rev() {
            let j = self.below(i as u64 + 1) as usize;
            xs.swap(i, j);
        }
    }
}

// ---------- canonical printers (must match coq/Base/Show.v) ----------

/// sign / integer mantissa / binary exponent, as Show.show_float prints Prim2SF
pub fn show_f64(x: f64) -> String {
    if x.is_nan() {
        return "nan".to_string();
    }
    let bits = x.to_bits();
    let neg = (bits >> 63) == 1;
    let s = if neg { "-" } else { "+" };
    let e = ((bits >> 52) & 0x7ff) as i64;
    let f = bits & ((1u64 << 52) - 1);
    if e == 0x7ff {
        return format!("{}inf", s);
    }
    if e == 0 {
        if f == 0 {
            return format!("{}0", s);
        }
        // subnormal: Coq's Prim2SF normalises the mantissa to 53 bits? No: it keeps
        // (m, -1074) with m < 2^52 -- shift not applied.
        return format!("{}{}p{}", s, f, -1074);
    }
    format!("{}{}p{}", s, f | (1u64 << 52), e - 1075)
}
pub fn show_bool(b: bool) -> &'static str {
    if b {
        "T"
    } else {
        "F"
    }
}
pub fn show_list<T>(xs: &[T], f: impl Fn(&T) -> String) -> String {
    format!("[{}]", xs.iter().map(f).collect::<Vec<_>>().join(","))
}
pub fn show_opt<T>(x: &Option<T>, f: impl Fn(&T) -> String) -> String {
    match x {
        None => "None".to_string(),
        Some(v) => format!("Some({})", f(v)),
    }
}

// ---------- Gallina term emitters ----------

/// a binary64 value as a Coq term of type float (exact: hexadecimal literal)
pub fn coq_f64(x: f64) -> String {
    if x.is_nan() {
        return "PrimFloat.nan".into();
    }
    if x.is_infinite() {
        return if x > 0.0 { "PrimFloat.infinity".into() } else { "PrimFloat.neg_infinity".into() };
    }
    if x == 0.0 {
        return if x.is_sign_negative() { "PrimFloat.neg_zero".into() } else { "PrimFloat.zero".into() };
    }
    let bits = x.to_bits();
    let neg = (bits >> 63) == 1;
    let e = ((bits >> 52) & 0x7ff) as i64;
    let f = bits & ((1u64 << 52) - 1);
    let (m, ex) = if e == 0 { (f, -1074i64) } else { (f | (1u64 << 52), e - 1075) };
    // 0x<m>p<ex> with integer hexadecimal mantissa
    format!("({}0x{:x}p{}{})%float", if neg { "-" } else { "" }, m, if ex >= 0 { "+" } else { "" }, ex)
}
pub fn coq_z(x: i128) -> String {
    if x < 0 {
        format!("({})%Z", x)
    } else {
        format!("{}%Z", x)
    }
}
pub fn coq_nat(x: usize) -> String {
    format!("{}%nat", x)
}
pub fn coq_bool(b: bool) -> &'static str {
    if b {
        "true"
    } else {
        "false"
    }
}
pub fn coq_list<T>(xs: &[T], f: impl Fn(&T) -> String) -> String {
    format!("[{}]", xs.iter().map(f).collect::<Vec<_>>().join("; "))
}
pub fn coq_opt<T>(x: &Option<T>, f: impl Fn(&T) -> String) -> String {
    match x {
        None => "None".to_string(),
        Some(v) => format!("(Some {})", f(v)),
    }
}
pub fn coq_string(s: &str) -> String {
    format!("\"{}\"%string", s.replace('"', "\"\""))
}

// ---------- output of one stream ----------

/// Collects, for one correspondence stream: implementation result lines, the Gallina case
/// file(s) that make the model print its lines for the same cases, a JSON description of
/// every case (for samples / replay), and histogram counters for the evidence.
pub struct Stream {
    pub dir: PathBuf,
    pub name: String,
    pub header: String,
    pub shards: usize,
    coq: Vec<String>,
    impl_lines: Vec<String>,
    cases: Vec<serde_json::Value>,
    pub hist: std::collections::BTreeMap<String, u64>,
    pub nontrivial: std::collections::BTreeSet<u64>,
    n: usize,
    /// print payloads in full instead of hashing the long ones (replay / VERIF_FULL=1)
    pub full: bool,
}
impl Stream {
    /// `header`: the Require/Import lines every case file starts with
    pub fn new(dir: &Path, name: &str, header: &str, shards: usize) -> Stream {
        fs::create_dir_all(dir).unwrap();
        Stream {
            dir: dir.to_path_buf(),
            name: name.to_string(),
            header: header.to_string(),
            shards: shards.max(1),
            coq: vec![],
            impl_lines: vec![],
            cases: vec![],
            hist: Default::default(),
            nontrivial: Default::default(),
            n: 0,
            full: std::env::var("VERIF_FULL").map(|v| v == "1").unwrap_or(false),
        }
    }
    pub fn next_id(&self) -> usize {
        self.n
    }
    /// add one case: `coq_terms` are Gallina expressions of type string, each evaluated by the
    /// model side with vm_compute and producing one line; `impl_lines` are the implementation's
    /// lines for the same case (same tags/ids, any order); `desc` describes the case.
    pub fn case(&mut self, coq_terms: Vec<String>, impl_lines: Vec<String>, desc: serde_json::Value) {
        let mut s = String::new();
        for t in coq_terms {
            if self.full {
                let _ = writeln!(s, "Eval vm_compute in ({}).", t);
            } else {
                let _ = writeln!(s, "Eval vm_compute in (compress ({})).", t);
            }
        }
        self.coq.push(s);
        let full = self.full;
        self.impl_lines.extend(impl_lines.into_iter().map(|l| if full { l } else { compress(&l) }));
        self.cases.push(desc);
        self.n += 1;
    }
    pub fn count(&mut self, key: &str) {
        *self.hist.entry(key.to_string()).or_insert(0) += 1;
    }
    /// record a case as non-trivial by the stream's rule, keyed by a hash of its canonical form
    pub fn mark_nontrivial(&mut self, canonical: &str) {
        self.nontrivial.insert(fnv(canonical));
    }
    pub fn finish(self) {
        let per = (self.coq.len() + self.shards - 1) / self.shards.max(1);
        let per = per.max(1);
        for (i, chunk) in self.coq.chunks(per).enumerate() {
            let p = self.dir.join(format!("{}_{:02}.v", self.name, i));
            let mut f = fs::File::create(p).unwrap();
            writeln!(f, "{}", self.header).unwrap();
            writeln!(f, "Set Printing Width 1000000.\nSet Printing Depth 1000000.").unwrap();
            for c in chunk {
                f.write_all(c.as_bytes()).unwrap();
            }
        }
        fs::write(self.dir.join(format!("{}.impl", self.name)), self.impl_lines.join("\n") + "\n").unwrap();
        let mut f = fs::File::create(self.dir.join(format!("{}.cases.jsonl", self.name))).unwrap();
        for c in &self.cases {
            writeln!(f, "{}", c).unwrap();
        }
        let stats = serde_json::json!({
            "stream": self.name, "cases": self.n, "hist": self.hist,
            "distinct_nontrivial": self.nontrivial.len(),
        });
        fs::write(self.dir.join(format!("{}.stats.json", self.name)), stats.to_string()).unwrap();
    }
}

/// same function as Show.compress: payloads longer than 160 bytes are replaced by a hash
pub fn compress(line: &str) -> String {
    let mut it = line.splitn(3, ' ');
    let (tag, id, payload) = (it.next().unwrap_or(""), it.next().unwrap_or(""), it.next().unwrap_or(""));
    if payload.len() <= 160 {
        return line.to_string();
    }
    let mut h: u64 = 7;
    for b in payload.bytes() {
        h = (h.wrapping_mul(1000003).wrapping_add(b as u64)) & 0x7fff_ffff_ffff_ffff;
    }
    format!("{} {} #{}", tag, id, h)
}

pub fn fnv(s: &str) -> u64 {
    let mut h: u64 = 0xcbf29ce484222325;
    for b in s.bytes() {
        h ^= b as u64;
        h = h.wrapping_mul(0x100000001b3);
    }
    h
}

/// common command line: <bin> <stream> --seed S --n N --out DIR [--shards K] [--replay FILE]
pub struct Args {
    pub stream: String,
    pub seed: u64,
    pub n: usize,
    pub out: PathBuf,
    pub shards: usize,
    pub replay: Option<PathBuf>,
    pub extra: Vec<String>,
}
pub fn parse_args() -> Args {
    let mut a = Args {
        stream: String::new(),
        seed: 0,
        n: 100,
        out: PathBuf::from("."),
        shards: 8,
        replay: None,
        extra: vec![],
    };
    let mut it = std::env::args().skip(1);
    while let Some(x) = it.next() {
        match x.as_str() {
            "--seed" => a.seed = it.next().unwrap().parse().unwrap(),
            "--n" => a.n = it.next().unwrap().parse().unwrap(),
            "--out" => a.out = PathBuf::from(it.next().unwrap()),
            "--shards" => a.shards = it.next().unwrap().parse().unwrap(),
            "--replay" => a.replay = Some(PathBuf::from(it.next().unwrap())),
            _ if a.stream.is_empty() => a.stream = x,
            _ => a.extra.push(x),
        }
    }
    a
}

/// run a closure, mapping a panic to Err(message) (Rust panics are outcomes the model talks about)
pub fn catch<T>(f: impl FnOnce() -> T + std::panic::UnwindSafe) -> Result<T, String> {
    std::panic::catch_unwind(f).map_err(|e| {
        if let Some(s) = e.downcast_ref::<&str>() {
            s.to_string()
        } else if let Some(s) = e.downcast_ref::<String>() {
            s.clone()
        } else {
            "panic".to_string()
        }
    })
}
pub fn silence_panics() {
    std::panic::set_hook(Box::new(|_| {}));
}

// ---------- JSON (must match coq/Base/Json.v) ----------
use serde_json::Value;

/// a serde_json value as a Gallina term of type Json.json
pub fn coq_json(v: &Value) -> String {
    match v {
        Value::Null => "JNull".into(),
        Value::Bool(b) => format!("(JBool {})", coq_bool(*b)),
        Value::Number(n) => {
            if let Some(i) = n.as_i64() {
                format!("(JInt {})", coq_z(i as i128))
            } else if let Some(u) = n.as_u64() {
                format!("(JInt {})", coq_z(u as i128))
            } else {
                format!("(JFloat {})", coq_f64(n.as_f64().unwrap()))
            }
        }
        Value::String(s) => format!("(JStr {})", coq_string(s)),
        Value::Array(a) => format!("(JArr {})", coq_list(a, coq_json)),
        Value::Object(m) => format!(
            "(JObj {})",
            coq_list(&m.iter().collect::<Vec<_>>(), |(k, v)| format!("({}, {})", coq_string(k), coq_json(v)))
        ),
    }
}
/// canonical text, as Json.show_json (sorted = false) or Json.show_sorted (sorted = true)
pub fn show_json(v: &Value, sorted: bool) -> String {
    match v {
        Value::Null => "null".into(),
        Value::Bool(b) => if *b { "true".into() } else { "false".into() },
        Value::Number(n) => {
            if let Some(i) = n.as_i64() {
                i.to_string()
            } else if let Some(u) = n.as_u64() {
                u.to_string()
            } else {
                format!("f{}", show_f64(n.as_f64().unwrap()))
            }
        }
        Value::String(s) => format!("'{}'", s),
        Value::Array(a) => format!("[{}]", a.iter().map(|x| show_json(x, sorted)).collect::<Vec<_>>().join(",")),
        Value::Object(m) => {
            let mut kvs: Vec<(String, String)> = m.iter().map(|(k, v)| (k.clone(), show_json(v, sorted))).collect();
            if sorted {
                // stable sort by key bytes (Coq's String.leb compares ascii codes)
                kvs.sort_by(|a, b| a.0.as_bytes().cmp(b.0.as_bytes()));
            }
            format!("{{{}}}", kvs.iter().map(|(k, v)| format!("{}:{}", k, v)).collect::<Vec<_>>().join(","))
        }
    }
}
