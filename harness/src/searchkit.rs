//! Shared helpers for the graph-search correspondence streams (owned by the C01 work item; used by
//! C02 C04 C05 C10 C13).  Everything here drives the REAL routee_compass_core search code; the Coq
//! counterpart is coq/Model/SearchRun.v (module SR) on top of coq/Model/Search.v.
//!
//! A *world* is a complete, table-driven search configuration: a graph given as an edge list (edge id =
//! position), one state feature ("distance", initial value `init`) and
//!   * TraversalModel  : traversing edge e adds `cost[e]` to the state; edges in `terr` fail,
//!   * heuristic       : estimate_traversal((src,dst)) adds `h[src]` to the state,
//!   * AccessModel     : the turn (prev,next) adds `turn[(prev,next)]` to the state (nothing when absent),
//!   * CostModel       : weight 1, VehicleCostRate::Raw, no network rates, Sum aggregation, so the
//!                       edge's total cost is the state delta (clamped to 1e-10 when <= 0),
//!   * FrontierModel   : edges in `forbid` and turns in `fturn` are refused, edges in `ferr` fail,
//!   * TerminationModel: `term` (Unlimited = IterationsLimit{u64::MAX}).
//! NOTE (measured, mirrored by the model): every non-first edge of a path carries access cost 1e-10
//! (CostModel::access_cost clamps the zero delta of NoAccess) and traversal cost `total - 1e-10`; the label
//! increment is EdgeTraversal::total_cost() = enforce_strictly_positive(access + traversal) (/repo 693929c),
//! `SR.pos` = the model's `cfloor`.  A source vertex outside the graph is err:graph (/repo e7c3cbc).
//!
//! Public API
//!   types      World, Term, Query, Alg, Dir, Orient, Outcome, Branch, Hop, NumKind, CostFamily, HKind
//!   build      build_graph(n, &edges, &dist) -> Graph          (adj/rev filled as edge_loader.rs does)
//!              build_instance(&World) -> SearchInstance         (all real core types)
//!              search_algorithm(&Alg) -> SearchAlgorithm,  query_json(&Query)
//!   run        run_query(&World,&Query) -> Outcome              (panics caught -> status "Panic")
//!              run_query_watchdog(&World,&Query,ms) -> Outcome  (no answer within ms -> status "Hang")
//!              outcome_of(Result<SearchAlgorithmResult,SearchError>) -> Outcome,  classify_error(&SearchError)
//!   print      show_outcome(&Outcome, detail)   detail 0: status, iterations, (vertex,parent,edge) triples
//!              sorted by vertex, route edge ids; detail 1: plus access cost, traversal cost, state as
//!              exact floats.  show_triples, show_route_edges, show_labels (per-vertex state = label)
//!              -- identical to SR.show_outcome / SR.line_M in Coq.
//!   emit       coq_world, coq_query, coq_outcome (Gallina terms of SR.world / SR.query / SR.outcome),
//!              coq_num (float literal or exact rational), term_M / term_S (complete case terms),
//!              HEADER (Require lines for the case files), default_fuel(&World)
//!   json       world_to_json/world_from_json, query_to_json/query_from_json  (floats as bit patterns)
//!   generate   gen_graph(rng) (DESIGN.md Appendix B), gen_costs(rng,m,family), gen_world(rng,family),
//!              gen_frontier(rng,&mut World), gen_heuristic(rng,&mut World,dir,target,kind),
//!              true_dist(&World,dir,target), reachable(&World,dir,start), gen_query(rng,&World), boundary_cases() (C01/C05 families),
//!              ksp_cases(), gen_ksp_world(rng), run_yens_watchdog(..), term_s_ksp(..), term_const(..) (Yen's, chain clause only),
//!              long_case(n,shape,dir,orient,astar), show_long_summary, term_s_long (65k+ edge chains, summary facts),
//!              absorption_cases() (2^60 absorption + long-haul/zero-length mutual edges), reopen_cases(),
//!              add_reopen_gadget(rng,&mut World,&Query), reopened_and_target_popped_first(&World,&Query) (histogram statistic only)
use crate::*;
use routee_compass_core::algorithm::search::direction::Direction;
use routee_compass_core::algorithm::search::search_algorithm::SearchAlgorithm;
use routee_compass_core::algorithm::search::search_algorithm_result::SearchAlgorithmResult;
use routee_compass_core::algorithm::search::search_error::SearchError;
use routee_compass_core::algorithm::search::search_instance::SearchInstance;
use routee_compass_core::model::access::access_model::AccessModel;
use routee_compass_core::model::access::access_model_error::AccessModelError;
use routee_compass_core::model::cost::cost_aggregation::CostAggregation;
use routee_compass_core::model::cost::cost_model::CostModel;
use routee_compass_core::model::cost::vehicle::vehicle_cost_rate::VehicleCostRate;
use routee_compass_core::model::frontier::frontier_model::FrontierModel;
use routee_compass_core::model::frontier::frontier_model_error::FrontierModelError;
use routee_compass_core::model::network::{Edge, EdgeId, Graph, Vertex, VertexId};
use routee_compass_core::model::state::state_feature::StateFeature;
use routee_compass_core::model::state::state_model::StateModel;
use routee_compass_core::model::termination::termination_model::TerminationModel;
use routee_compass_core::model::termination::termination_model_error::TerminationModelError;
use routee_compass_core::model::traversal::state::state_variable::StateVar;
use routee_compass_core::model::traversal::traversal_model::TraversalModel;
use routee_compass_core::model::traversal::traversal_model_error::TraversalModelError;
use routee_compass_core::model::unit::as_f64::AsF64;
use routee_compass_core::model::unit::{Cost, Distance, DistanceUnit};
use routee_compass_core::util::compact_ordered_hash_map::CompactOrderedHashMap;
use serde_json::{json, Value};
use std::collections::{HashMap, HashSet};
use std::sync::Arc;

pub const FEATURE: &str = "distance";

// ------------------------------------------------------------------------------------------ types

#[derive(Clone, Debug, PartialEq)]
pub enum Term {
    Unlimited,
    Iter(u64),
    Size(usize),
    Combined(Vec<Term>),
}

#[derive(Clone, Debug)]
pub struct World {
    pub n: usize,
    /// edge id = position; (src, dst)
    pub edges: Vec<(usize, usize)>,
    /// per edge: state increment = edge cost
    pub cost: Vec<f64>,
    /// per vertex: state increment of the estimate (the heuristic table); shorter = 0
    pub h: Vec<f64>,
    /// access model: (prev edge, next edge, state increment)
    pub turn: Vec<(usize, usize, f64)>,
    pub forbid: Vec<usize>,
    pub fturn: Vec<(usize, usize)>,
    pub ferr: Vec<usize>,
    pub terr: Vec<usize>,
    pub term: Term,
    pub init: f64,
}
impl World {
    pub fn new(n: usize, edges: Vec<(usize, usize)>, cost: Vec<f64>) -> World {
        assert_eq!(edges.len(), cost.len());
        World { n, edges, cost, h: vec![], turn: vec![], forbid: vec![], fturn: vec![], ferr: vec![], terr: vec![], term: Term::Unlimited, init: 0.0 }
    }
}

#[derive(Clone, Copy, Debug, PartialEq, Eq)]
pub enum Dir {
    Forward,
    Reverse,
}
#[derive(Clone, Copy, Debug, PartialEq)]
pub enum Alg {
    Dijkstra,
    /// SearchAlgorithm::AStarAlgorithm { weight_factor }
    AStar(Option<f64>),
}
#[derive(Clone, Copy, Debug, PartialEq, Eq)]
pub enum Orient {
    Vertex,
    Edge,
}
#[derive(Clone, Debug)]
pub struct Query {
    pub alg: Alg,
    pub dir: Dir,
    pub orient: Orient,
    /// vertex id or edge id, by `orient`
    pub source: usize,
    pub target: Option<usize>,
    /// "weight_factor" field of the query JSON (overrides the algorithm's, also for Dijkstra)
    pub query_wf: Option<f64>,
}

#[derive(Clone, Debug)]
pub struct Branch {
    pub v: usize,
    pub parent: usize,
    pub edge: usize,
    pub access: f64,
    pub trav: f64,
    pub state: f64,
}
#[derive(Clone, Debug)]
pub struct Hop {
    pub edge: usize,
    pub access: f64,
    pub trav: f64,
    pub state: f64,
}
/// canonical result of one search: status in {Ok, nopath, terminated, err:<class>, Panic, Hang}
#[derive(Clone, Debug)]
pub struct Outcome {
    pub status: String,
    pub iters: u64,
    /// every tree sorted by vertex id
    pub trees: Vec<Vec<Branch>>,
    pub routes: Vec<Vec<Hop>>,
}
impl Outcome {
    pub fn status_only(s: &str) -> Outcome {
        Outcome { status: s.to_string(), iters: 0, trees: vec![], routes: vec![] }
    }
    pub fn is_ok(&self) -> bool {
        self.status == "Ok"
    }
}

// ------------------------------------------------------------------------------- table-driven models

pub struct TableTraversal {
    pub cost: Vec<f64>,
    pub h: Vec<f64>,
    pub terr: HashSet<usize>,
}
impl TraversalModel for TableTraversal {
    fn state_features(&self) -> Vec<(String, StateFeature)> {
        vec![]
    }
    fn traverse_edge(&self, trajectory: (&Vertex, &Edge, &Vertex), state: &mut Vec<StateVar>, _sm: &StateModel) -> Result<(), TraversalModelError> {
        let (_, e, _) = trajectory;
        if self.terr.contains(&e.edge_id.0) {
            return Err(TraversalModelError::TraversalModelFailure(format!("table: edge {} fails", e.edge_id.0)));
        }
        let c = self.cost.get(e.edge_id.0).copied().unwrap_or(0.0);
        state[0] = state[0] + StateVar(c);
        Ok(())
    }
    fn estimate_traversal(&self, od: (&Vertex, &Vertex), state: &mut Vec<StateVar>, _sm: &StateModel) -> Result<(), TraversalModelError> {
        let (src, _) = od;
        let hv = self.h.get(src.vertex_id.0).copied().unwrap_or(0.0);
        state[0] = state[0] + StateVar(hv);
        Ok(())
    }
}

pub struct TableAccess {
    pub turn: HashMap<(usize, usize), f64>,
}
impl AccessModel for TableAccess {
    fn state_features(&self) -> Vec<(String, StateFeature)> {
        vec![]
    }
    fn access_edge(&self, traversal: (&Vertex, &Edge, &Vertex, &Edge, &Vertex), state: &mut Vec<StateVar>, _sm: &StateModel) -> Result<(), AccessModelError> {
        let (_, e1, _, e2, _) = traversal;
        if let Some(c) = self.turn.get(&(e1.edge_id.0, e2.edge_id.0)) {
            state[0] = state[0] + StateVar(*c);
        }
        Ok(())
    }
}

pub struct TableFrontier {
    pub forbid: HashSet<usize>,
    pub fturn: HashSet<(usize, usize)>,
    pub ferr: HashSet<usize>,
}
impl FrontierModel for TableFrontier {
    fn valid_frontier(&self, edge: &Edge, _state: &[StateVar], previous_edge: Option<&Edge>, _sm: &StateModel) -> Result<bool, FrontierModelError> {
        let e = edge.edge_id.0;
        if self.ferr.contains(&e) {
            return Err(FrontierModelError::FrontierModelError(format!("table: edge {} fails", e)));
        }
        if self.forbid.contains(&e) {
            return Ok(false);
        }
        if let Some(p) = previous_edge {
            if self.fturn.contains(&(p.edge_id.0, e)) {
                return Ok(false);
            }
        }
        Ok(true)
    }
}

// ------------------------------------------------------------------------------------------ build

/// a real `Graph`: `adj`/`rev` filled in edge order exactly as edge_loader.rs does
pub fn build_graph(n: usize, edges: &[(usize, usize)], dist: &[f64]) -> Graph {
    let vertices: Vec<Vertex> = (0..n).map(|i| Vertex::new(i, 0.0, 0.0)).collect();
    let es: Vec<Edge> = edges.iter().enumerate().map(|(i, (s, d))| Edge::new(i, *s, *d, dist.get(i).copied().unwrap_or(1.0))).collect();
    let mut adj = vec![CompactOrderedHashMap::empty(); n];
    let mut rev = vec![CompactOrderedHashMap::empty(); n];
    for e in &es {
        if let Some(m) = adj.get_mut(e.src_vertex_id.0) {
            m.insert(e.edge_id, e.dst_vertex_id);
        }
        if let Some(m) = rev.get_mut(e.dst_vertex_id.0) {
            m.insert(e.edge_id, e.src_vertex_id);
        }
    }
    Graph { adj: adj.into_boxed_slice(), rev: rev.into_boxed_slice(), edges: es.into_boxed_slice(), vertices: vertices.into_boxed_slice() }
}

pub fn termination_model(t: &Term) -> TerminationModel {
    match t {
        Term::Unlimited => TerminationModel::IterationsLimit { limit: u64::MAX },
        Term::Iter(l) => TerminationModel::IterationsLimit { limit: *l },
        Term::Size(l) => TerminationModel::SolutionSizeLimit { limit: *l },
        Term::Combined(v) => TerminationModel::Combined { models: v.iter().map(termination_model).collect() },
    }
}

pub fn build_instance(w: &World) -> SearchInstance {
    let state_model = Arc::new(
        StateModel::empty()
            .extend(vec![(String::from(FEATURE), StateFeature::Distance { distance_unit: DistanceUnit::Meters, initial: Distance::new(w.init) })])
            .unwrap(),
    );
    let cost_model = CostModel::new(
        Arc::new(HashMap::from([(String::from(FEATURE), 1.0)])),
        Arc::new(HashMap::from([(String::from(FEATURE), VehicleCostRate::Raw)])),
        Arc::new(HashMap::new()),
        CostAggregation::Sum,
        state_model.clone(),
    )
    .unwrap();
    SearchInstance {
        directed_graph: Arc::new(build_graph(w.n, &w.edges, &w.cost)),
        state_model,
        traversal_model: Arc::new(TableTraversal { cost: w.cost.clone(), h: w.h.clone(), terr: w.terr.iter().copied().collect() }),
        access_model: Arc::new(TableAccess { turn: w.turn.iter().map(|(a, b, c)| ((*a, *b), *c)).collect() }),
        cost_model: Arc::new(cost_model),
        frontier_model: Arc::new(TableFrontier { forbid: w.forbid.iter().copied().collect(), fturn: w.fturn.iter().copied().collect(), ferr: w.ferr.iter().copied().collect() }),
        termination_model: Arc::new(termination_model(&w.term)),
    }
}

pub fn search_algorithm(a: &Alg) -> SearchAlgorithm {
    match a {
        Alg::Dijkstra => SearchAlgorithm::Dijkstra,
        Alg::AStar(w) => SearchAlgorithm::AStarAlgorithm { weight_factor: w.map(Cost::new) },
    }
}
pub fn direction(d: Dir) -> Direction {
    match d {
        Dir::Forward => Direction::Forward,
        Dir::Reverse => Direction::Reverse,
    }
}
pub fn query_json(q: &Query) -> Value {
    match q.query_wf {
        None => json!({}),
        Some(w) => json!({ "weight_factor": w }),
    }
}

// -------------------------------------------------------------------------------------------- run

pub fn classify_error(e: &SearchError) -> String {
    match e {
        SearchError::NoPathExistsBetweenVertices(_, _) | SearchError::NoPathExistsBetweenEdges(_, _) => "nopath".into(),
        SearchError::QueryTerminated(_) => "terminated".into(),
        SearchError::TerminationModelFailure { source } => match source {
            TerminationModelError::QueryTerminated(_) => "terminated".into(),
            TerminationModelError::RuntimeError(_) => "err:termination".into(),
        },
        SearchError::NetworkFailure { .. } => "err:graph".into(),
        SearchError::FrontierModelFailure { .. } => "err:frontier".into(),
        SearchError::TraversalModelFailure { .. } => "err:traversal".into(),
        SearchError::AccessModelFailure { .. } => "err:access".into(),
        SearchError::StateFailure { .. } => "err:state".into(),
        SearchError::CostFailure { .. } => "err:cost".into(),
        SearchError::BuildError(_) => "err:build".into(),
        SearchError::InternalError(_) => "err:internal".into(),
        SearchError::ReadOnlyPoisonError(_) => "err:poison".into(),
    }
}

fn st0(s: &[StateVar]) -> f64 {
    s.first().map(|x| x.0).unwrap_or(f64::NAN)
}

pub fn outcome_of(r: Result<SearchAlgorithmResult, SearchError>) -> Outcome {
    match r {
        Err(e) => Outcome::status_only(&classify_error(&e)),
        Ok(res) => {
            let trees = res
                .trees
                .iter()
                .map(|t| {
                    let mut v: Vec<Branch> = t
                        .iter()
                        .map(|(k, b)| Branch {
                            v: k.0,
                            parent: b.terminal_vertex.0,
                            edge: b.edge_traversal.edge_id.0,
                            access: b.edge_traversal.access_cost.as_f64(),
                            trav: b.edge_traversal.traversal_cost.as_f64(),
                            state: st0(&b.edge_traversal.result_state),
                        })
                        .collect();
                    v.sort_by_key(|b| b.v);
                    v
                })
                .collect();
            let routes = res
                .routes
                .iter()
                .map(|r| r.iter().map(|et| Hop { edge: et.edge_id.0, access: et.access_cost.as_f64(), trav: et.traversal_cost.as_f64(), state: st0(&et.result_state) }).collect())
                .collect();
            Outcome { status: "Ok".into(), iters: res.iterations, trees, routes }
        }
    }
}

/// run one query on the real code: SearchAlgorithm::{Dijkstra, AStarAlgorithm}.run_vertex_oriented / run_edge_oriented
pub fn run_on_instance(si: &SearchInstance, q: &Query) -> Outcome {
    let alg = search_algorithm(&q.alg);
    let qj = query_json(q);
    let d = direction(q.dir);
    let r = match q.orient {
        Orient::Vertex => alg.run_vertex_oriented(VertexId(q.source), q.target.map(VertexId), &qj, &d, si),
        Orient::Edge => alg.run_edge_oriented(EdgeId(q.source), q.target.map(EdgeId), &qj, &d, si),
    };
    outcome_of(r)
}

pub fn run_query(w: &World, q: &Query) -> Outcome {
    let (w2, q2) = (w.clone(), q.clone());
    match catch(move || {
        let si = build_instance(&w2);
        run_on_instance(&si, &q2)
    }) {
        Ok(o) => o,
        Err(_) => Outcome::status_only("Panic"),
    }
}

/// as `run_query`, in a helper thread: no answer within `ms` milliseconds => status "Hang" (the thread is
/// abandoned and dies with the process)
pub fn run_query_watchdog(w: &World, q: &Query, ms: u64) -> Outcome {
    let (tx, rx) = std::sync::mpsc::channel();
    let (w2, q2) = (w.clone(), q.clone());
    std::thread::spawn(move || {
        let o = run_query(&w2, &q2);
        let _ = tx.send(o);
    });
    match rx.recv_timeout(std::time::Duration::from_millis(ms)) {
        Ok(o) => o,
        Err(_) => Outcome::status_only("Hang"),
    }
}

/// Yen's k-shortest paths (SearchAlgorithm::Yens { k, underlying, similarity: None, termination: None }) from vertex
/// `s` to vertex `t`, forward, in a helper thread: panic -> status "Panic", no answer within `ms` -> status "Hang"
/// (known finding K_yens_k_ge_2 of C12/C13: a one-edge route panics, a two-edge route never returns).  Used by C01 to
/// judge the chain clause of every route that IS returned.
pub fn run_yens_watchdog(w: &World, k: usize, under: &Alg, s: usize, t: usize, ms: u64) -> Outcome {
    let (tx, rx) = std::sync::mpsc::channel();
    let (w2, u2) = (w.clone(), *under);
    std::thread::spawn(move || {
        let o = match catch(move || {
            let si = build_instance(&w2);
            let alg = SearchAlgorithm::Yens { k, underlying: Box::new(search_algorithm(&u2)), similarity: None, termination: None };
            outcome_of(alg.run_vertex_oriented(VertexId(s), Some(VertexId(t)), &json!({}), &Direction::Forward, &si))
        }) {
            Ok(o) => o,
            Err(_) => Outcome::status_only("Panic"),
        };
        let _ = tx.send(o);
    });
    match rx.recv_timeout(std::time::Duration::from_millis(ms)) {
        Ok(o) => o,
        Err(_) => Outcome::status_only("Hang"),
    }
}

// ------------------------------------------------------------------------------------------ print

pub fn show_triples(t: &[Branch]) -> String {
    show_list(t, |b| format!("({},{},{})", b.v, b.parent, b.edge))
}
pub fn show_route_edges(r: &[Hop]) -> String {
    show_list(r, |h| h.edge.to_string())
}
/// per-vertex label = accumulated state of the tree entry (cost-so-far in exact arithmetic)
pub fn show_labels(t: &[Branch]) -> String {
    show_list(t, |b| format!("{}:{}", b.v, show_f64(b.state)))
}
fn show_branch(b: &Branch, detail: u8) -> String {
    if detail == 0 {
        format!("({},{},{})", b.v, b.parent, b.edge)
    } else {
        format!("({},{},{},{},{},{})", b.v, b.parent, b.edge, show_f64(b.access), show_f64(b.trav), show_f64(b.state))
    }
}
fn show_hop(h: &Hop, detail: u8) -> String {
    if detail == 0 {
        h.edge.to_string()
    } else {
        format!("({},{},{},{})", h.edge, show_f64(h.access), show_f64(h.trav), show_f64(h.state))
    }
}
/// identical to SR.show_outcome
pub fn show_outcome(o: &Outcome, detail: u8) -> String {
    if !o.is_ok() {
        return o.status.clone();
    }
    format!(
        "Ok it={} trees={} routes={}",
        o.iters,
        show_list(&o.trees, |t| show_list(t, |b| show_branch(b, detail))),
        show_list(&o.routes, |r| show_list(r, |h| show_hop(h, detail)))
    )
}

// ------------------------------------------------------------------------------------------- emit

#[derive(Clone, Copy, Debug, PartialEq, Eq)]
pub enum NumKind {
    /// primitive binary64 (instance FN): bit-exact execution
    F,
    /// exact rationals (instance QN): the value of the double, exactly
    Q,
}
impl NumKind {
    pub fn inst(&self) -> &'static str {
        match self {
            NumKind::F => "FN",
            NumKind::Q => "QN",
        }
    }
}
/// exact rational value of a finite double as a Coq term of type Q
pub fn coq_q(x: f64) -> String {
    assert!(x.is_finite());
    if x == 0.0 {
        return "(0 # 1)%Q".into();
    }
    let bits = x.to_bits();
    let neg = (bits >> 63) == 1;
    let e = ((bits >> 52) & 0x7ff) as i64;
    let f = bits & ((1u64 << 52) - 1);
    let (mut m, mut ex) = if e == 0 { (f as u128, -1074i64) } else { ((f | (1u64 << 52)) as u128, e - 1075) };
    while m % 2 == 0 && ex < 0 {
        m /= 2;
        ex += 1;
    }
    let sign = if neg { "-" } else { "" };
    if ex >= 0 {
        format!("(({}{} * 2 ^ {})%Z # 1)%Q", sign, m, ex)
    } else {
        format!("(({}{})%Z # (2 ^ {})%positive)%Q", sign, m, -ex)
    }
}
pub fn coq_num(x: f64, k: NumKind) -> String {
    match k {
        NumKind::F => coq_f64(x),
        NumKind::Q => coq_q(x),
    }
}
fn coq_pair(a: usize, b: usize) -> String {
    format!("({}, {})", a, b)
}
pub fn coq_term(t: &Term) -> String {
    match t {
        Term::Unlimited => "SR.TUnlimited".into(),
        Term::Iter(l) => format!("(SR.TIter {})", l),
        Term::Size(l) => format!("(SR.TSize {})", l),
        Term::Combined(v) => format!("(SR.TCombined {})", coq_list(v, coq_term)),
    }
}
/// `SR.world <inst>`; all naturals are printed in %nat scope by the header
pub fn coq_world(w: &World, k: NumKind) -> String {
    format!(
        "(SR.mkW {} {} {} {} {} {} {} {} {} {} {} {})",
        k.inst(),
        w.n,
        coq_list(&w.edges, |(a, b)| coq_pair(*a, *b)),
        coq_list(&w.cost, |c| coq_num(*c, k)),
        coq_list(&w.h, |c| coq_num(*c, k)),
        coq_list(&w.turn, |(a, b, c)| format!("({}, {}, {})", a, b, coq_num(*c, k))),
        coq_list(&w.forbid, |e| e.to_string()),
        coq_list(&w.fturn, |(a, b)| coq_pair(*a, *b)),
        coq_list(&w.ferr, |e| e.to_string()),
        coq_list(&w.terr, |e| e.to_string()),
        coq_term(&w.term),
        coq_num(w.init, k)
    )
}
pub fn coq_dir(d: Dir) -> &'static str {
    match d {
        Dir::Forward => "Search.Forward",
        Dir::Reverse => "Search.Reverse",
    }
}
pub fn coq_query(q: &Query, k: NumKind) -> String {
    let alg = match q.alg {
        Alg::Dijkstra => format!("(SR.ADijkstra {})", k.inst()),
        Alg::AStar(w) => format!("(SR.AAStar {} {})", k.inst(), coq_opt(&w, |x| coq_num(*x, k))),
    };
    format!(
        "(SR.mkQ {} {} {} {} {} {} {})",
        k.inst(),
        alg,
        coq_dir(q.dir),
        match q.orient {
            Orient::Vertex => "SR.OVertex",
            Orient::Edge => "SR.OEdge",
        },
        q.source,
        coq_opt(&q.target, |t| t.to_string()),
        coq_opt(&q.query_wf, |x| coq_num(*x, k))
    )
}
/// the implementation's outcome as a Gallina term of type `SR.outcome <inst>` (input of the verified checkers)
pub fn coq_outcome(o: &Outcome, k: NumKind) -> String {
    format!(
        "(SR.mkO {} {} {} {} {})",
        k.inst(),
        coq_string(&o.status),
        o.iters,
        coq_list(&o.trees, |t| coq_list(t, |b| format!("({}, {}, {}, {}, {}, {})", b.v, b.parent, b.edge, coq_num(b.access, k), coq_num(b.trav, k), coq_num(b.state, k)))),
        coq_list(&o.routes, |r| coq_list(r, |h| format!("({}, {}, {}, {})", h.edge, coq_num(h.access, k), coq_num(h.trav, k), coq_num(h.state, k))))
    )
}
/// Require lines of a case file that uses the terms above
pub const HEADER: &str = "From Coq Require Import ZArith QArith List String Floats.\nFrom RC Require Import Base.Show Base.Num Model.Search Model.SearchRun.\nImport ListNotations.\nOpen Scope nat_scope.";

/// generous loop bound for the model (pops <= 1 + successful relaxations)
pub fn default_fuel(w: &World) -> usize {
    200 + 20 * (w.n + w.edges.len())
}
/// model line: runs the model on the same world and query, prints SR.show_outcome (or TIE when the run popped
/// among equal priorities, where the priority_queue crate's choice is unspecified)
pub fn term_m(id: usize, w: &World, q: &Query, k: NumKind, detail: u8) -> String {
    format!("SR.line_M {} {} {}%Z {} {} {}", k.inst(), default_fuel(w), id, coq_world(w, k), coq_query(q, k), detail)
}
/// checker line: the verified boolean checkers evaluated on the IMPLEMENTATION's outcome; prints the outcome back
/// (same text as the I line) when they accept and REJECT(...) otherwise
pub fn term_s(id: usize, w: &World, q: &Query, o: &Outcome, k: NumKind, detail: u8) -> String {
    format!("SR.line_S {} {}%Z {} {} {} {}", k.inst(), id, coq_world(w, k), coq_query(q, k), coq_outcome(o, k), detail)
}

/// checker line for a k-shortest-paths outcome: chain clause for every route, tree clause for every tree (SR.line_S_ksp)
pub fn term_s_ksp(id: usize, w: &World, s: usize, t: usize, o: &Outcome, k: NumKind, detail: u8) -> String {
    format!("SR.line_S_ksp {} {}%Z {} {} {} {} {}", k.inst(), id, coq_world(w, k), s, t, coq_outcome(o, k), detail)
}
/// a constant line (tag, id, payload) for cases that have no model / nothing to judge
pub fn term_const(tag: &str, id: usize, payload: &str) -> String {
    format!("Show.line {} {}%Z {}", coq_string(tag), id, coq_string(payload))
}

// ------------------------------------------------------------------------------------------- json

fn fj(x: f64) -> Value {
    json!(x.to_bits())
}
fn jf(v: &Value) -> f64 {
    f64::from_bits(v.as_u64().unwrap())
}
fn term_to_json(t: &Term) -> Value {
    match t {
        Term::Unlimited => json!("unlimited"),
        Term::Iter(l) => json!({ "iter": l }),
        Term::Size(l) => json!({ "size": l }),
        Term::Combined(v) => json!({ "combined": v.iter().map(term_to_json).collect::<Vec<_>>() }),
    }
}
fn term_from_json(v: &Value) -> Term {
    if v.is_string() {
        Term::Unlimited
    } else if let Some(l) = v.get("iter") {
        Term::Iter(l.as_u64().unwrap())
    } else if let Some(l) = v.get("size") {
        Term::Size(l.as_u64().unwrap() as usize)
    } else {
        Term::Combined(v["combined"].as_array().unwrap().iter().map(term_from_json).collect())
    }
}
/// floats are stored as their bit patterns (`*_bits`) so that a replay is exact; `cost_text` is for the reader
pub fn world_to_json(w: &World) -> Value {
    json!({
        "n": w.n, "edges": w.edges,
        "cost_bits": w.cost.iter().map(|c| fj(*c)).collect::<Vec<_>>(),
        "cost_text": w.cost.iter().map(|c| format!("{}", c)).collect::<Vec<_>>().join(" "),
        "h_bits": w.h.iter().map(|c| fj(*c)).collect::<Vec<_>>(),
        "h_text": w.h.iter().map(|c| format!("{}", c)).collect::<Vec<_>>().join(" "),
        "turn": w.turn.iter().map(|(a, b, c)| json!([a, b, fj(*c)])).collect::<Vec<_>>(),
        "forbid": w.forbid, "fturn": w.fturn, "ferr": w.ferr, "terr": w.terr,
        "term": term_to_json(&w.term), "init_bits": fj(w.init),
    })
}
pub fn world_from_json(v: &Value) -> World {
    let us = |x: &Value| -> Vec<usize> { x.as_array().map(|a| a.iter().map(|y| y.as_u64().unwrap() as usize).collect()).unwrap_or_default() };
    let pairs = |x: &Value| -> Vec<(usize, usize)> { x.as_array().map(|a| a.iter().map(|y| (y[0].as_u64().unwrap() as usize, y[1].as_u64().unwrap() as usize)).collect()).unwrap_or_default() };
    let fs = |x: &Value| -> Vec<f64> { x.as_array().map(|a| a.iter().map(jf).collect()).unwrap_or_default() };
    World {
        n: v["n"].as_u64().unwrap() as usize,
        edges: pairs(&v["edges"]),
        cost: fs(&v["cost_bits"]),
        h: fs(&v["h_bits"]),
        turn: v["turn"].as_array().map(|a| a.iter().map(|y| (y[0].as_u64().unwrap() as usize, y[1].as_u64().unwrap() as usize, jf(&y[2]))).collect()).unwrap_or_default(),
        forbid: us(&v["forbid"]),
        fturn: pairs(&v["fturn"]),
        ferr: us(&v["ferr"]),
        terr: us(&v["terr"]),
        term: term_from_json(&v["term"]),
        init: v.get("init_bits").map(jf).unwrap_or(0.0),
    }
}
pub fn query_to_json(q: &Query) -> Value {
    json!({
        "alg": match q.alg { Alg::Dijkstra => json!("dijkstra"), Alg::AStar(None) => json!({"astar": null}), Alg::AStar(Some(w)) => json!({"astar": fj(w), "wf_text": w}) },
        "dir": match q.dir { Dir::Forward => "forward", Dir::Reverse => "reverse" },
        "orient": match q.orient { Orient::Vertex => "vertex", Orient::Edge => "edge" },
        "source": q.source, "target": q.target,
        "query_wf": q.query_wf.map(fj),
    })
}
pub fn query_from_json(v: &Value) -> Query {
    let alg = if v["alg"].is_string() {
        Alg::Dijkstra
    } else if v["alg"]["astar"].is_null() {
        Alg::AStar(None)
    } else {
        Alg::AStar(Some(jf(&v["alg"]["astar"])))
    };
    Query {
        alg,
        dir: if v["dir"] == "reverse" { Dir::Reverse } else { Dir::Forward },
        orient: if v["orient"] == "edge" { Orient::Edge } else { Orient::Vertex },
        source: v["source"].as_u64().unwrap() as usize,
        target: v["target"].as_u64().map(|x| x as usize),
        query_wf: if v["query_wf"].is_null() { None } else { Some(jf(&v["query_wf"])) },
    }
}

// --------------------------------------------------------------------------------------- generate

#[derive(Clone, Copy, Debug, PartialEq, Eq)]
pub enum CostFamily {
    /// random dyadics k/64, 1 <= k < 2^20: ties are improbable (and detected by the model: TIE)
    TieFree,
    /// integers 1..3: many equal labels and equal priorities
    TieRich,
    /// long haul: a few edges of cost 2^21..2^40 among zero-cost, sub-MIN_COST (1e-12) and unit edges, so that the
    /// clamped 1e-10 edge cost is absorbed by the f64 addition and both ends of an edge carry bit-identical labels
    LongHaul,
}

/// DESIGN.md Appendix B: n in 3..40 (small sizes more likely), out-degree 0..8 with at least one vertex above 5,
/// forced parallel edge / self loop / isolated vertex / unreachable part each with probability 1/4.
/// Returns (n, edges, flags) where flags names the forced features that were applied.
pub fn gen_graph(rng: &mut Rng) -> (usize, Vec<(usize, usize)>, Vec<&'static str>) {
    let n = match rng.below(10) {
        0..=4 => rng.range(3, 8),
        5..=7 => rng.range(9, 16),
        8 => rng.range(17, 28),
        _ => rng.range(29, 40),
    } as usize;
    let mut flags = vec![];
    let isolated = if rng.chance(1, 4) { Some(rng.below(n as u64) as usize) } else { None };
    // unreachable part: vertices >= cut have no edge from the lower part
    let cut = if rng.chance(1, 4) && n >= 4 { Some(rng.range(2, n as i64 - 1) as usize) } else { None };
    let dense = rng.below(n as u64) as usize; // the vertex whose out-degree is forced above 5
    let maxdeg = *rng.pick(&[1u64, 2, 2, 3, 3, 4, 8]);
    let mut per_vertex: Vec<Vec<usize>> = vec![vec![]; n];
    for v in 0..n {
        let deg = if v == dense { rng.range(6, 8) as u64 } else { rng.below(maxdeg + 1) };
        for _ in 0..deg {
            per_vertex[v].push(rng.below(n as u64) as usize);
        }
    }
    let mut edges: Vec<(usize, usize)> = vec![];
    for v in 0..n {
        for &d in &per_vertex[v] {
            edges.push((v, d));
        }
    }
    if rng.chance(1, 4) && !edges.is_empty() {
        let e = *rng.pick(&edges);
        edges.push(e);
        flags.push("parallel");
    }
    if rng.chance(1, 4) {
        let v = rng.below(n as u64) as usize;
        edges.push((v, v));
        flags.push("selfloop");
    }
    rng.shuffle(&mut edges);
    if let Some(c) = cut {
        edges.retain(|(s, d)| !(*s < c && *d >= c));
        flags.push("unreachable_part");
    }
    if let Some(i) = isolated {
        edges.retain(|(s, d)| *s != i && *d != i);
        flags.push("isolated");
    }
    (n, edges, flags)
}

pub fn gen_costs(rng: &mut Rng, m: usize, fam: CostFamily) -> Vec<f64> {
    (0..m)
        .map(|_| match fam {
            CostFamily::TieFree => rng.range(1, (1 << 20) - 1) as f64 / 64.0,
            CostFamily::TieRich => rng.range(1, 3) as f64,
            CostFamily::LongHaul => match rng.below(8) {
                0 | 1 => (1u64 << rng.range(21, 40)) as f64,
                2 | 3 | 4 => 0.0,
                5 => 1e-12,
                _ => 1.0,
            },
        })
        .collect()
}

/// random frontier tables: forbidden edges, forbidden turns (on adjacent pairs), rarely a failing edge
pub fn gen_frontier(rng: &mut Rng, w: &mut World) {
    let m = w.edges.len();
    if m == 0 {
        return;
    }
    match rng.below(4) {
        0 => {}
        1 => {
            for e in 0..m {
                if rng.chance(1, 8) {
                    w.forbid.push(e);
                }
            }
        }
        2 => {
            for e in 0..m {
                if rng.chance(1, 3) {
                    w.forbid.push(e);
                }
            }
        }
        _ => {}
    }
    if rng.chance(1, 2) {
        // forbidden turns among adjacent pairs (a.dst == b.src), 0..30 %
        let pct = rng.below(31);
        for a in 0..m {
            for b in 0..m {
                if w.edges[a].1 == w.edges[b].0 && rng.below(100) < pct {
                    w.fturn.push((a, b));
                    // the reverse search presents the pair the other way round (previous edge = later edge)
                    if rng.chance(1, 2) {
                        w.fturn.push((b, a));
                    }
                }
            }
        }
        w.fturn.sort();
        w.fturn.dedup();
        if w.fturn.len() > 60 {
            w.fturn.truncate(60);
        }
    }
}

/// exact reference distances TO `target` in the search direction (Forward: along edges; Reverse: against them),
/// over the cost table only (no frontier, no turn costs); Bellman-Ford, exact for dyadic tables
pub fn true_dist(w: &World, dir: Dir, target: usize) -> Vec<Option<f64>> {
    let mut d: Vec<Option<f64>> = vec![None; w.n];
    if target < w.n {
        d[target] = Some(0.0);
    }
    for _ in 0..w.n {
        let mut changed = false;
        for (i, (s, t)) in w.edges.iter().enumerate() {
            // forward search moves s -> t, so distance-to-target propagates from t to s; reverse: from s to t
            let (from, to) = match dir {
                Dir::Forward => (*t, *s),
                Dir::Reverse => (*s, *t),
            };
            if let Some(df) = d[from] {
                let cand = df + w.cost[i];
                if d[to].map_or(true, |x| cand < x) {
                    d[to] = Some(cand);
                    changed = true;
                }
            }
        }
        if !changed {
            break;
        }
    }
    d
}

/// vertices reachable from `start` in the search direction (frontier tables ignored); `start` itself included
pub fn reachable(w: &World, dir: Dir, start: usize) -> Vec<bool> {
    let mut seen = vec![false; w.n];
    if start >= w.n {
        return seen;
    }
    seen[start] = true;
    let mut stack = vec![start];
    while let Some(v) = stack.pop() {
        for (s, t) in &w.edges {
            let (from, to) = if dir == Dir::Forward { (*s, *t) } else { (*t, *s) };
            if from == v && !seen[to] {
                seen[to] = true;
                stack.push(to);
            }
        }
    }
    seen
}

#[derive(Clone, Copy, Debug, PartialEq, Eq)]
pub enum HKind {
    Zero,
    /// h = true remaining distance (consistent)
    Exact,
    /// h = half the true remaining distance, rounded down to 1/64 (consistent up to rounding, admissible)
    Half,
    /// h = random fraction of the true remaining distance per vertex (admissible, usually inconsistent)
    Admissible,
    /// random values unrelated to distances (inadmissible)
    Wild,
}
fn floor64(x: f64) -> f64 {
    (x * 64.0).floor() / 64.0
}
pub fn gen_heuristic(rng: &mut Rng, w: &mut World, dir: Dir, target: Option<usize>, kind: HKind) {
    let d = match target {
        Some(t) if t < w.n => true_dist(w, dir, t),
        _ => vec![None; w.n],
    };
    w.h = (0..w.n)
        .map(|v| match kind {
            HKind::Zero => 0.0,
            HKind::Exact => d[v].unwrap_or(0.0),
            HKind::Half => floor64(d[v].unwrap_or(0.0) / 2.0),
            HKind::Admissible => floor64(d[v].unwrap_or(0.0) * (rng.below(65) as f64 / 64.0)),
            HKind::Wild => match rng.below(4) {
                0 => 0.0,
                1 => rng.range(0, 6) as f64,
                _ => rng.range(0, (1 << 22) - 1) as f64 / 64.0,
            },
        })
        .collect();
}

/// a random world over a random graph; heuristic tables are added per query with `gen_heuristic`
pub fn gen_world(rng: &mut Rng, fam: CostFamily) -> (World, Vec<&'static str>) {
    let (n, edges, flags) = gen_graph(rng);
    let cost = gen_costs(rng, edges.len(), fam);
    let mut w = World::new(n, edges, cost);
    if rng.chance(1, 3) {
        gen_frontier(rng, &mut w);
    }
    (w, flags)
}

pub const WEIGHT_FACTORS: [f64; 4] = [0.0, 0.5, 1.0, 3.0];
/// large factors make the heuristic strongly inconsistent: settled vertices get re-opened
pub const LARGE_WEIGHT_FACTORS: [f64; 2] = [10.0, 20.0];

/// random query on a world: orientation, direction, algorithm, endpoints (mostly valid, distinct), heuristic kind
pub fn gen_query(rng: &mut Rng, w: &mut World) -> (Query, HKind) {
    let orient = if rng.chance(1, 3) && !w.edges.is_empty() { Orient::Edge } else { Orient::Vertex };
    let dir = if rng.chance(1, 2) { Dir::Forward } else { Dir::Reverse };
    let alg = match rng.below(8) {
        0 => Alg::Dijkstra,
        1 => Alg::AStar(None),
        2 | 3 => Alg::AStar(Some(*rng.pick(&LARGE_WEIGHT_FACTORS))),
        _ => Alg::AStar(Some(*rng.pick(&WEIGHT_FACTORS))),
    };
    let dom = match orient {
        Orient::Vertex => w.n,
        Orient::Edge => w.edges.len(),
    };
    let source = rng.below(dom as u64) as usize;
    let target = if rng.chance(1, 6) {
        None
    } else {
        // three times out of four a destination that is connected to the origin (frontier tables ignored)
        let start = match orient {
            Orient::Vertex => source,
            Orient::Edge => match dir {
                Dir::Forward => w.edges[source].1,
                Dir::Reverse => w.edges[source].0,
            },
        };
        let reach = reachable(w, dir, start);
        let cands: Vec<usize> = match orient {
            Orient::Vertex => (0..w.n).filter(|v| reach[*v] && *v != source).collect(),
            Orient::Edge => (0..w.edges.len())
                .filter(|e| *e != source && reach[if dir == Dir::Forward { w.edges[*e].0 } else { w.edges[*e].1 }])
                .collect(),
        };
        if !cands.is_empty() && rng.chance(3, 4) {
            Some(*rng.pick(&cands))
        } else {
            let mut t = rng.below(dom as u64) as usize;
            if t == source && rng.chance(9, 10) {
                t = (t + 1) % dom;
            }
            Some(t)
        }
    };
    let query_wf = if rng.chance(1, 10) { Some(*rng.pick(&WEIGHT_FACTORS)) } else { None };
    // the heuristic is about the vertex pair the vertex-oriented search is started with
    let (tv, hdir) = match (orient, target) {
        (Orient::Vertex, t) => (t, dir),
        (Orient::Edge, Some(te)) => (Some(w.edges[te].0), dir),
        (Orient::Edge, None) => (None, dir),
    };
    let kind = *rng.pick(&[HKind::Zero, HKind::Exact, HKind::Half, HKind::Admissible, HKind::Admissible, HKind::Wild, HKind::Wild]);
    gen_heuristic(rng, w, hdir, tv, kind);
    (Query { alg, dir, orient, source, target, query_wf }, kind)
}

fn vq(alg: Alg, dir: Dir, s: usize, t: Option<usize>) -> Query {
    Query { alg, dir, orient: Orient::Vertex, source: s, target: t, query_wf: None }
}
fn eq(alg: Alg, dir: Dir, s: usize, t: Option<usize>) -> Query {
    Query { alg, dir, orient: Orient::Edge, source: s, target: t, query_wf: None }
}

/// deterministic boundary families of DESIGN.md Appendix B for C01/C05 (every run includes them first)
pub fn boundary_cases() -> Vec<(String, World, Query)> {
    let mut out: Vec<(String, World, Query)> = vec![];
    let algs = [Alg::Dijkstra, Alg::AStar(None), Alg::AStar(Some(3.0))];
    let dirs = [Dir::Forward, Dir::Reverse];
    let unit = |n: usize, es: &[(usize, usize)], cs: &[f64]| World::new(n, es.to_vec(), cs.to_vec());
    for alg in algs {
        for dir in dirs {
            // the edge-oriented shapes are written for a forward search; a reverse search gets the mirrored network
            let eo = |n: usize, es: &[(usize, usize)], cs: &[f64]| {
                let es2: Vec<(usize, usize)> = es.iter().map(|(a, b)| if dir == Dir::Reverse { (*b, *a) } else { (*a, *b) }).collect();
                World::new(n, es2, cs.to_vec())
            };
            // origin with no incident edge in the search direction
            out.push(("origin_dead_end".into(), unit(3, &[(1, 2), (2, 1)], &[1.0, 2.0]), vq(alg, dir, 0, Some(2))));
            out.push(("origin_dead_end_no_target".into(), unit(3, &[(1, 2)], &[1.0]), vq(alg, dir, 0, None)));
            // destination isolated
            out.push(("destination_isolated".into(), unit(4, &[(0, 1), (1, 0), (1, 2), (2, 1)], &[1.0, 1.0, 2.5, 2.5]), vq(alg, dir, 0, Some(3))));
            // destination a direct neighbour (both directions of a two-way street)
            out.push(("destination_neighbour".into(), unit(3, &[(0, 1), (1, 0), (1, 2), (2, 1)], &[1.5, 1.25, 2.0, 2.75]), vq(alg, dir, 0, Some(1))));
            // self loops at origin and at destination
            out.push(("selfloop_origin".into(), unit(3, &[(0, 0), (0, 1), (1, 0), (1, 2), (2, 1)], &[0.5, 1.0, 1.0, 2.0, 2.0]), vq(alg, dir, 0, Some(2))));
            out.push(("selfloop_destination".into(), unit(3, &[(0, 1), (1, 0), (1, 2), (2, 1), (2, 2)], &[1.0, 1.0, 2.0, 2.0, 0.5]), vq(alg, dir, 0, Some(2))));
            // parallel edges of different cost, cheaper one later / earlier
            out.push(("parallel_cheaper_later".into(), unit(3, &[(0, 1), (0, 1), (1, 0), (1, 0), (1, 2), (2, 1)], &[3.0, 1.0, 3.0, 1.0, 1.0, 1.0]), vq(alg, dir, 0, Some(2))));
            out.push(("parallel_cheaper_first".into(), unit(3, &[(0, 1), (0, 1), (1, 0), (1, 0), (1, 2), (2, 1)], &[1.0, 3.0, 1.0, 3.0, 1.0, 1.0]), vq(alg, dir, 0, Some(2))));
            // asymmetric graph: a one-way ring, the reverse search must follow it backwards
            out.push(("one_way_ring".into(), unit(4, &[(0, 1), (1, 2), (2, 3), (3, 0)], &[1.0, 2.0, 4.0, 8.0]), vq(alg, dir, 0, Some(3))));
            out.push(("one_way_ring_no_target".into(), unit(4, &[(0, 1), (1, 2), (2, 3), (3, 0)], &[1.0, 2.0, 4.0, 8.0]), vq(alg, dir, 1, None)));
            // decrease-key: the better label of 2 arrives after a worse one is queued
            out.push(("decrease_key".into(), unit(4, &[(0, 2), (0, 1), (1, 2), (2, 3), (2, 0), (1, 0), (2, 1), (3, 2)], &[10.0, 1.0, 2.0, 1.0, 10.0, 1.0, 2.0, 1.0]), vq(alg, dir, 0, Some(3))));
            // source == target, unknown ids
            out.push(("source_is_target".into(), unit(2, &[(0, 1), (1, 0)], &[1.0, 1.0]), vq(alg, dir, 1, Some(1))));
            out.push(("unknown_source_vertex".into(), unit(2, &[(0, 1), (1, 0)], &[1.0, 1.0]), vq(alg, dir, 7, Some(1))));
            out.push(("unknown_source_vertex_no_target".into(), unit(2, &[(0, 1), (1, 0)], &[1.0, 1.0]), vq(alg, dir, 7, None)));
            out.push(("unknown_target_vertex".into(), unit(2, &[(0, 1), (1, 0)], &[1.0, 1.0]), vq(alg, dir, 0, Some(9))));
            // vertex of degree 6 (past the compact map's small-size variants): all neighbours found, in edge order
            out.push(("degree_six".into(), unit(8, &[(0, 1), (0, 2), (0, 3), (0, 4), (0, 5), (0, 6), (6, 7), (1, 0), (2, 0), (3, 0), (4, 0), (5, 0), (6, 0), (7, 6)], &[6.0, 5.0, 4.0, 3.0, 2.0, 1.0, 1.0, 6.0, 5.0, 4.0, 3.0, 2.0, 1.0, 1.0]), vq(alg, dir, 0, None)));
            // ---- edge-oriented (the D-EO shapes and their neighbours) ----
            // (i) destination edge's end vertex already labelled through a cheaper edge
            out.push(("eo_dest_end_labelled".into(), eo(4, &[(0, 1), (1, 2), (1, 3), (2, 3), (3, 2)], &[1.0, 5.0, 1.0, 1.0, 1.0]), eq(alg, dir, 0, Some(3))));
            // (ii) destination edge ends at the origin edge's start (3-cycle)
            out.push(("eo_dest_ends_at_origin_start".into(), eo(3, &[(0, 1), (1, 2), (2, 0)], &[1.0, 1.0, 1.0]), eq(alg, dir, 0, Some(2))));
            // (iii) two-way street u-turn, with and without destination
            out.push(("eo_uturn".into(), eo(4, &[(0, 1), (1, 0), (1, 2), (0, 3)], &[1.0, 1.0, 1.0, 1.0]), eq(alg, dir, 0, Some(3))));
            out.push(("eo_uturn_no_destination".into(), eo(4, &[(0, 1), (1, 0), (1, 2), (0, 3)], &[1.0, 1.0, 1.0, 1.0]), eq(alg, dir, 0, None)));
            // no destination, origin start not reachable: the origin edge is grafted as the root branch
            out.push(("eo_graft_root".into(), eo(4, &[(0, 1), (1, 2), (2, 3)], &[1.0, 1.0, 1.0]), eq(alg, dir, 0, None)));
            // destination edge adjacent to the origin edge
            out.push(("eo_adjacent".into(), eo(3, &[(0, 1), (1, 2)], &[1.0, 2.0]), eq(alg, dir, 0, Some(1))));
            // destination edge = the reverse of the origin edge (adjacent, ends at the origin edge's start)
            out.push(("eo_dest_is_reverse_of_origin".into(), eo(2, &[(0, 1), (1, 0)], &[1.0, 2.0]), eq(alg, dir, 0, Some(1))));
            // origin edge a self loop, with an adjacent / distant / no destination
            out.push(("eo_origin_selfloop_adjacent".into(), eo(2, &[(0, 0), (0, 1)], &[1.0, 2.0]), eq(alg, dir, 0, Some(1))));
            out.push(("eo_origin_selfloop".into(), eo(3, &[(0, 0), (0, 1), (1, 2)], &[1.0, 2.0, 3.0]), eq(alg, dir, 0, Some(2))));
            out.push(("eo_origin_selfloop_no_destination".into(), eo(3, &[(0, 0), (0, 1), (1, 2)], &[1.0, 2.0, 3.0]), eq(alg, dir, 0, None)));
            // destination edge a self loop
            out.push(("eo_dest_selfloop".into(), eo(3, &[(0, 1), (1, 2), (2, 2)], &[1.0, 2.0, 3.0]), eq(alg, dir, 0, Some(2))));
            out.push(("eo_dest_selfloop_adjacent".into(), eo(2, &[(0, 1), (1, 1)], &[1.0, 2.0]), eq(alg, dir, 0, Some(1))));
            // same edge, parallel twin, unreachable destination edge, unknown edges
            out.push(("eo_same_edge".into(), eo(2, &[(0, 1), (1, 0)], &[1.0, 1.0]), eq(alg, dir, 0, Some(0))));
            out.push(("eo_parallel_twin".into(), eo(3, &[(0, 1), (0, 1), (1, 2), (2, 0)], &[1.0, 1.0, 1.0, 1.0]), eq(alg, dir, 0, Some(1))));
            out.push(("eo_unreachable".into(), eo(4, &[(0, 1), (2, 3)], &[1.0, 1.0]), eq(alg, dir, 0, Some(1))));
            out.push(("eo_unknown_origin_edge".into(), eo(2, &[(0, 1)], &[1.0]), eq(alg, dir, 5, Some(0))));
            out.push(("eo_unknown_destination_edge".into(), eo(2, &[(0, 1)], &[1.0]), eq(alg, dir, 0, Some(5))));
        }
    }
    // frontier / traversal / termination outcomes
    for dir in dirs {
        let mut w = unit(4, &[(0, 1), (1, 2), (2, 3), (0, 3), (3, 2), (2, 1), (1, 0), (3, 0)], &[1.0, 1.0, 1.0, 9.0, 1.0, 1.0, 1.0, 9.0]);
        w.forbid = vec![1, 5];
        out.push(("frontier_forbids_short_path".into(), w.clone(), vq(Alg::Dijkstra, dir, 0, Some(3))));
        let mut w2 = w.clone();
        w2.forbid = vec![];
        w2.fturn = vec![(0, 1), (4, 5), (1, 0), (5, 4)];
        out.push(("frontier_forbids_turn".into(), w2, vq(Alg::AStar(Some(1.0)), dir, 0, Some(3))));
        let mut w3 = w.clone();
        w3.forbid = vec![];
        w3.ferr = vec![2, 4];
        out.push(("frontier_error".into(), w3, vq(Alg::Dijkstra, dir, 0, Some(3))));
        let mut w4 = w.clone();
        w4.forbid = vec![];
        w4.terr = vec![1, 5];
        out.push(("traversal_error".into(), w4, vq(Alg::Dijkstra, dir, 0, Some(3))));
        for lim in [0u64, 1, 2, 3, 4] {
            let mut w5 = w.clone();
            w5.forbid = vec![];
            w5.term = Term::Iter(lim);
            out.push((format!("iteration_limit_{}", lim), w5, vq(Alg::Dijkstra, dir, 0, Some(2))));
            let mut w6 = w.clone();
            w6.forbid = vec![];
            w6.term = Term::Combined(vec![Term::Size(lim as usize), Term::Iter(100)]);
            out.push((format!("size_limit_{}", lim), w6, vq(Alg::Dijkstra, dir, 0, None)));
        }
        // turn costs (access model) and a non-zero initial state
        let mut w7 = w.clone();
        w7.forbid = vec![];
        w7.turn = vec![(0, 1, 4.0), (1, 2, 0.5), (4, 5, 4.0), (5, 6, 0.5), (1, 0, 4.0), (2, 1, 0.5)];
        w7.init = 100.0;
        out.push(("turn_costs".into(), w7, vq(Alg::Dijkstra, dir, 0, Some(3))));
        // the access share exceeds the edge total by more than 2^51: access + (total - access) rounds to 0 and
        // EdgeTraversal::total_cost applies the 1e-10 floor to the sum (/repo 693929c)
        let mut w9 = unit(3, &[(0, 1), (1, 2), (2, 1), (1, 0)], &[1.0, -4194304.0, -4194304.0, 1.0]);
        w9.turn = vec![(0, 1, 4194304.0), (2, 3, 4194304.0)];
        out.push(("floor_on_sum".into(), w9, vq(Alg::Dijkstra, dir, if dir == Dir::Forward { 0 } else { 2 }, Some(if dir == Dir::Forward { 2 } else { 0 }))));
        // inadmissible heuristic steering the search onto the expensive edge; weight factor from the query
        let mut w8 = w.clone();
        w8.forbid = vec![];
        w8.h = vec![0.0, 50.0, 50.0, 0.0];
        out.push(("inadmissible_heuristic".into(), w8.clone(), vq(Alg::AStar(None), dir, 0, Some(3))));
        let mut q8 = vq(Alg::Dijkstra, dir, 0, Some(3));
        q8.query_wf = Some(3.0);
        out.push(("dijkstra_with_query_weight_factor".into(), w8, q8));
    }
    out
}

/// absorption family (DESIGN.md C01 'Catches'): a first edge of cost 2^60 and then small cycles of cost-1 edges, so
/// that label + cost == label in binary64.  The strict `<` of the relaxation is what stops the search here.
pub fn absorption_cases() -> Vec<(String, World, Query)> {
    let big = (1u64 << 60) as f64;
    let mut out = vec![];
    for alg in [Alg::Dijkstra, Alg::AStar(Some(1.0))] {
        // 0 -big-> 1 <-> 2 ; 3 unreachable
        let w = World::new(4, vec![(0, 1), (1, 2), (2, 1)], vec![big, 1.0, 1.0]);
        out.push(("absorb_two_cycle_no_target".into(), w.clone(), vq(alg, Dir::Forward, 0, None)));
        out.push(("absorb_two_cycle_unreachable_target".into(), w.clone(), vq(alg, Dir::Forward, 0, Some(3))));
        // reverse direction: 1 <-> 2, 1 -big-> 0, searched backwards from 0
        let wr = World::new(4, vec![(1, 0), (2, 1), (1, 2)], vec![big, 1.0, 1.0]);
        out.push(("absorb_two_cycle_reverse".into(), wr, vq(alg, Dir::Reverse, 0, None)));
        // a 3-cycle and a self loop behind the big edge
        let w3 = World::new(5, vec![(0, 1), (1, 2), (2, 3), (3, 1), (2, 2)], vec![big, 1.0, 1.0, 1.0, 1.0]);
        out.push(("absorb_three_cycle".into(), w3.clone(), vq(alg, Dir::Forward, 0, Some(4))));
        // edge-oriented: the origin edge is free, the big edge follows
        let we = World::new(5, vec![(4, 0), (0, 1), (1, 2), (2, 1), (3, 3)], vec![1.0, big, 1.0, 1.0, 1.0]);
        out.push(("absorb_edge_oriented".into(), we, eq(alg, Dir::Forward, 0, Some(4))));
    }
    // long haul + zero-length mutual edges: accumulated cost 2^21 .. 2^40, then edges of cost 0 (clamped to 1e-10) or
    // 1e-12 pointing at each other, in both edge-id orders; the 1e-10 is absorbed, so both ends carry bit-identical
    // labels and only the STRICT test of the relaxation keeps the first parent (seeded change C01-4)
    for k in [21u32, 22, 30, 40] {
        let big = (1u64 << k) as f64;
        for tiny in [0.0, 1e-12] {
            for dir in [Dir::Forward, Dir::Reverse] {
                let mk = |es: &[(usize, usize)], cs: &[f64]| {
                    let es2: Vec<(usize, usize)> = es.iter().map(|(a, b)| if dir == Dir::Reverse { (*b, *a) } else { (*a, *b) }).collect();
                    World::new(5, es2, cs.to_vec())
                };
                // back edge 2->1 has the LOWER id than the haul edge 0->1
                let lo = mk(&[(2, 1), (0, 1), (1, 2), (0, 3)], &[tiny, big, tiny, 2.0 * big]);
                // back edge has the HIGHER id
                let hi = mk(&[(0, 1), (1, 2), (2, 1), (0, 3)], &[big, tiny, tiny, 2.0 * big]);
                // 3-cycle 1->2->4->1 behind the haul, closing edge with the lower id
                let c3 = mk(&[(4, 1), (0, 1), (1, 2), (2, 4), (0, 3)], &[tiny, big, tiny, tiny, 2.0 * big]);
                for (nm, w) in [("back_lower", lo), ("back_higher", hi), ("three_cycle", c3)] {
                    let fam = format!("haul_zero_{}", nm);
                    out.push((fam.clone(), w.clone(), vq(Alg::Dijkstra, dir, 0, None)));
                    out.push((fam.clone(), w.clone(), vq(Alg::Dijkstra, dir, 0, Some(3))));
                    if k == 21 && tiny == 0.0 {
                        out.push((fam.clone(), w.clone(), vq(Alg::AStar(Some(1.0)), dir, 0, Some(3))));
                        // the cycle vertex as destination: the route passes the mutual edges
                        out.push((fam, w, vq(Alg::Dijkstra, dir, 0, Some(2))));
                    }
                }
            }
        }
    }
    out
}

/// re-open family (seeded change C01-5): S=0, R=1, C=2, X=3, T=4.  R is settled early over the expensive edge S->R
/// and gets the child C; the cheap detour S->X->R re-opens R (pushed back on the queue) and the destination T is
/// popped before R is popped again.  The returned tree must still hold R (C names it as its parent).
pub fn reopen_cases() -> Vec<(String, World, Query)> {
    let mut out = vec![];
    for (wf, hx) in [(3.0, 400.0), (10.0, 111.0), (20.0, 111.0), (1.0, 1200.0)] {
        for dir in [Dir::Forward, Dir::Reverse] {
            let flip = |es: &[(usize, usize)]| -> Vec<(usize, usize)> { es.iter().map(|(a, b)| if dir == Dir::Reverse { (*b, *a) } else { (*a, *b) }).collect() };
            let mut w = World::new(5, flip(&[(0, 1), (0, 3), (3, 1), (3, 4), (1, 2)]), vec![1000.0, 120.0, 230.0, 120.0, 100.0]);
            w.h = vec![2.0 * hx, 0.0, 0.0, hx, 0.0];
            out.push(("reopen_target_first".into(), w.clone(), vq(Alg::AStar(Some(wf)), dir, 0, Some(4))));
            let mut q2 = vq(Alg::Dijkstra, dir, 0, Some(4));
            q2.query_wf = Some(wf);
            out.push(("reopen_target_first".into(), w.clone(), q2));
            // control: Dijkstra settles X first, nothing is re-opened
            out.push(("reopen_control_dijkstra".into(), w.clone(), vq(Alg::Dijkstra, dir, 0, Some(4))));
            // edge-oriented: origin edge 5->S, destination edge T->6
            let mut we = World::new(7, flip(&[(0, 1), (0, 3), (3, 1), (3, 4), (1, 2), (5, 0), (4, 6)]), vec![1000.0, 120.0, 230.0, 120.0, 100.0, 1.0, 1.0]);
            we.h = vec![2.0 * hx, 0.0, 0.0, hx, 0.0, 0.0, 0.0];
            out.push(("reopen_target_first_edge_oriented".into(), we, eq(Alg::AStar(Some(wf)), dir, 5, Some(6))));
            // a grandchild below the re-opened vertex and a second re-opened vertex
            let mut w3 = World::new(8, flip(&[(0, 1), (0, 3), (3, 1), (3, 4), (1, 2), (2, 5), (0, 6), (3, 6), (6, 7)]), vec![1000.0, 120.0, 230.0, 120.0, 100.0, 50.0, 1000.0, 230.0, 100.0]);
            w3.h = vec![2.0 * hx, 0.0, 0.0, hx, 0.0, 0.0, 0.0, 0.0];
            out.push(("reopen_two_vertices".into(), w3, vq(Alg::AStar(Some(wf)), dir, 0, Some(4))));
        }
    }
    out
}

/// bias a random vertex-oriented destination query towards re-opening: graft the gadget of `reopen_cases` between
/// the query's source and target (three new vertices R, C, X; five new edges appended after the existing ones, so
/// existing edge ids and adjacency order are unchanged).  Returns false when the query is not suitable.
pub fn add_reopen_gadget(rng: &mut Rng, w: &mut World, q: &Query) -> bool {
    let wf = q.query_wf.unwrap_or(match q.alg {
        Alg::Dijkstra => 0.0,
        Alg::AStar(None) => 1.0,
        Alg::AStar(Some(x)) => x,
    });
    let (s, t) = match (q.orient, q.target) {
        (Orient::Vertex, Some(t)) if t != q.source && t < w.n && q.source < w.n && wf > 0.0 => (q.source, t),
        _ => return false,
    };
    let (r, c, x) = (w.n, w.n + 1, w.n + 2);
    w.n += 3;
    let scale = *rng.pick(&[1.0, 0.5, 4.0]);
    let mut add = |w: &mut World, a: usize, b: usize, cost: f64| {
        w.edges.push(if q.dir == Dir::Forward { (a, b) } else { (b, a) });
        w.cost.push(cost * scale);
    };
    add(w, s, r, 8.0);
    add(w, s, x, 1.0);
    add(w, x, r, 2.0);
    add(w, x, t, 1.0);
    add(w, r, c, 1.0);
    w.h.resize(w.n, 0.0);
    w.h[r] = 0.0;
    w.h[c] = 0.0;
    w.h[t] = 0.0;
    // f(X) = 1 + wf*h[X] must exceed f(C) = 9 so that R and C are expanded before X
    w.h[x] = (10.0 * scale / wf).ceil() + rng.below(4) as f64;
    true
}

/// deterministic Yen's families for C01 (name, world, k, underlying, source, target): shortest paths of >= 3 edges with
/// detours of 1, 2 and 3 edges, one-way chain / dead-end spur vertices (the whole query fails: nopath), a ladder
pub fn ksp_cases() -> Vec<(String, World, usize, Alg, usize, usize)> {
    let mut out = vec![];
    let mk = |n: usize, es: &[(usize, usize, f64)]| World::new(n, es.iter().map(|e| (e.0, e.1)).collect(), es.iter().map(|e| e.2).collect());
    // 0 -e0-> 1 -e1-> 2 -e2-> 3, detour 0->4->2, detour 2->5->3; vertex 1 is a one-way chain vertex (seeded C01-10)
    let chain = [(0, 1, 1.0), (1, 2, 1.0), (2, 3, 1.0), (0, 4, 2.0), (4, 2, 2.0), (2, 5, 2.0), (5, 3, 2.0)];
    let mut control = chain.to_vec();
    control.push((1, 5, 2.0));
    let mut dead_end = chain.to_vec();
    dead_end.push((1, 6, 1.0)); // the only other exit of vertex 1 is a dead end
    dead_end.push((6, 7, 1.0));
    let one = [(0, 1, 1.0), (1, 2, 1.0), (2, 3, 1.0), (1, 3, 5.0)];
    // detour of two edges 1->4->3 (seeded C01-12) and of three edges 1->4->5->3
    let two = [(0, 1, 1.0), (1, 2, 1.0), (2, 3, 1.0), (1, 4, 2.0), (4, 3, 2.0)];
    let three = [(0, 1, 1.0), (1, 2, 1.0), (2, 3, 1.0), (1, 4, 2.0), (4, 5, 2.0), (5, 3, 2.0)];
    // four-edge shortest path with two-edge detours around every inner vertex
    let long = [(0, 1, 1.0), (1, 2, 1.0), (2, 3, 1.0), (3, 4, 1.0), (0, 5, 1.5), (5, 2, 1.5), (1, 6, 1.75), (6, 3, 1.75), (2, 7, 2.25), (7, 4, 2.25)];
    // ladder: two rails 0-1-2-3 / 4-5-6-7 with rungs both ways, target 3
    let ladder = [(0, 1, 1.0), (1, 2, 1.0), (2, 3, 1.0), (4, 5, 1.25), (5, 6, 1.25), (6, 7, 1.25), (0, 4, 0.5), (1, 5, 0.5), (2, 6, 0.5), (5, 1, 0.75), (6, 2, 0.75), (7, 3, 0.75)];
    for under in [Alg::Dijkstra, Alg::AStar(None)] {
        for k in [2usize, 3, 4] {
            out.push(("ksp_chain_spur_without_detour".into(), mk(6, &chain), k, under, 0, 3));
            out.push(("ksp_chain_control".into(), mk(6, &control), k, under, 0, 3));
            out.push(("ksp_spur_into_dead_end".into(), mk(8, &dead_end), k, under, 0, 3));
            if k == 2 {
                // with k >= 3 the accepted two-edge route [e0,e3] makes the spur range empty: the loop never ends (K_yens_k_ge_2)
                out.push(("ksp_detour_one_edge".into(), mk(4, &one), k, under, 0, 3));
            }
            out.push(("ksp_detour_two_edges".into(), mk(5, &two), k, under, 0, 3));
            out.push(("ksp_detour_three_edges".into(), mk(6, &three), k, under, 0, 3));
            out.push(("ksp_four_edge_path".into(), mk(8, &long), k, under, 0, 4));
            out.push(("ksp_ladder".into(), mk(8, &ladder), k, under, 0, 3));
        }
    }
    out
}

/// random network for Yen's: a chain 0..len (len 3..6 edges, cheap) from source 0 to target len, detours of 1..3 edges
/// between chain vertices (so that spur paths of >= 2 edges exist), dead-end branches, some chain vertices left without a
/// detour (one-way chain: the whole query fails with nopath).  Returns (world, source, target).
pub fn gen_ksp_world(rng: &mut Rng) -> (World, usize, usize) {
    let len = rng.range(3, 6) as usize;
    let mut n = len + 1;
    let mut es: Vec<(usize, usize)> = vec![];
    let mut cs: Vec<f64> = vec![];
    let cost = |rng: &mut Rng, lo: i64, hi: i64| rng.range(lo * 64, hi * 64) as f64 / 64.0;
    for i in 0..len {
        es.push((i, i + 1));
        cs.push(cost(rng, 1, 2));
    }
    // most inner chain vertices get their own detour (otherwise the spur search from them fails and with it the query),
    // plus a few detours anywhere
    let mut starts: Vec<usize> = (1..len).filter(|_| rng.chance(5, 6)).collect();
    for _ in 0..rng.range(0, 3) {
        starts.push(rng.below(len as u64) as usize);
    }
    for i in starts {
        let j = rng.range(i as i64 + 1, len as i64) as usize;
        let m = rng.range(1, 3) as usize;
        if i + m + (len - j) < 3 {
            continue;
        }
        let mut prev = i;
        for step in 0..m {
            let next = if step + 1 == m { j } else { n += 1; n - 1 };
            es.push((prev, next));
            cs.push(cost(rng, 2, 6));
            prev = next;
        }
    }
    for _ in 0..rng.below(3) {
        let i = rng.below(n as u64) as usize;
        n += 1;
        es.push((i, n - 1));
        cs.push(cost(rng, 1, 3));
    }
    if rng.chance(1, 3) {
        // a back edge: cycles through the chain
        let i = rng.range(1, len as i64) as usize;
        es.push((i, rng.below(i as u64) as usize));
        cs.push(cost(rng, 1, 3));
    }
    // shuffle edge ids so that adjacency order is not the construction order
    let mut idx: Vec<usize> = (0..es.len()).collect();
    rng.shuffle(&mut idx);
    let es2: Vec<(usize, usize)> = idx.iter().map(|i| es[*i]).collect();
    let cs2: Vec<f64> = idx.iter().map(|i| cs[*i]).collect();
    (World::new(n, es2, cs2), 0, len)
}

// ------------------------------------------------------------------------------------ long routes
#[derive(Clone, Copy, Debug, PartialEq, Eq)]
pub enum LongShape {
    /// chain edge i (i -> i+1) has id i
    Plain,
    /// chain edge i has id n-1-i
    RevIds,
    /// chain edge i has id 2i; edge 2i+1 is a dead-end side branch at chain vertex i (pointing into the chain for a
    /// reverse search)
    Branch,
}
impl LongShape {
    pub fn name(&self) -> &'static str {
        match self {
            LongShape::Plain => "plain",
            LongShape::RevIds => "rev_ids",
            LongShape::Branch => "branch",
        }
    }
    pub fn from_name(s: &str) -> LongShape {
        match s {
            "rev_ids" => LongShape::RevIds,
            "branch" => LongShape::Branch,
            _ => LongShape::Plain,
        }
    }
    pub fn coq(&self) -> &'static str {
        match self {
            LongShape::Plain => "SR.LPlain",
            LongShape::RevIds => "SR.LRevIds",
            LongShape::Branch => "SR.LBranch",
        }
    }
    pub fn edge_id(&self, n: usize, i: usize) -> usize {
        match self {
            LongShape::Plain => i,
            LongShape::RevIds => n - 1 - i,
            LongShape::Branch => 2 * i,
        }
    }
}
/// family long_route: a chain 0 -> 1 -> ... -> n of unit-cost edges (see LongShape) and the query between its two ends:
/// Forward 0 -> n (or first chain edge -> last chain edge), Reverse n -> 0 (or last chain edge -> first).  With `astar`
/// the heuristic table is the exact remaining distance.  The only walk between the ends is the whole chain.
pub fn long_case(n: usize, shape: LongShape, dir: Dir, orient: Orient, astar: bool) -> (World, Query) {
    let m = if shape == LongShape::Branch { 2 * n } else { n };
    let mut edges = vec![(0usize, 0usize); m];
    for i in 0..n {
        edges[shape.edge_id(n, i)] = (i, i + 1);
        if shape == LongShape::Branch {
            edges[2 * i + 1] = if dir == Dir::Forward { (i, n + 1 + i) } else { (n + 1 + i, i + 1) };
        }
    }
    let nv = if shape == LongShape::Branch { 2 * n + 1 } else { n + 1 };
    let mut w = World::new(nv, edges, vec![1.0; m]);
    if astar {
        w.h = (0..nv).map(|v| if v <= n { if dir == Dir::Forward { (n - v) as f64 } else { v as f64 } } else { 0.0 }).collect();
    }
    let alg = if astar { Alg::AStar(None) } else { Alg::Dijkstra };
    let (first, last) = (shape.edge_id(n, 0), shape.edge_id(n, n - 1));
    let (source, target) = match (orient, dir) {
        (Orient::Vertex, Dir::Forward) => (0, n),
        (Orient::Vertex, Dir::Reverse) => (n, 0),
        (Orient::Edge, Dir::Forward) => (first, last),
        (Orient::Edge, Dir::Reverse) => (last, first),
    };
    (w, Query { alg, dir, orient, source, target: Some(target), query_wf: None })
}
/// summary facts of the (single) returned route, in the format of SR.line_S_long; other outcomes print their status
pub fn show_long_summary(w: &World, q: &Query, o: &Outcome) -> String {
    if !o.is_ok() {
        return o.status.clone();
    }
    if o.routes.len() != 1 {
        return format!("Ok routes={}", o.routes.len());
    }
    let r: Vec<usize> = o.routes[0].iter().map(|h| h.edge).collect();
    let m = w.edges.len();
    let near = |e: usize| if q.dir == Dir::Forward { w.edges[e].0 } else { w.edges[e].1 };
    let far = |e: usize| if q.dir == Dir::Forward { w.edges[e].1 } else { w.edges[e].0 };
    let unknown = r.iter().filter(|e| **e >= m).count();
    let ok = |e: &usize| *e < m;
    let target = q.target.unwrap();
    let (leaves, enters) = match q.orient {
        Orient::Vertex => (r.first().map_or(false, |e| ok(e) && near(*e) == q.source), r.last().map_or(false, |e| ok(e) && far(*e) == target)),
        Orient::Edge => (r.first() == Some(&q.source), r.last() == Some(&target)),
    };
    let breaks = r.windows(2).filter(|p| ok(&p[0]) && ok(&p[1]) && far(p[0]) != near(p[1])).count();
    let mut seen = HashSet::new();
    let repeats = r.iter().filter(|e| !seen.insert(**e)).count();
    let mut h: u64 = 7;
    for e in &r {
        h = (h.wrapping_mul(1000003).wrapping_add(*e as u64)) & 0x7fff_ffff_ffff_ffff;
    }
    format!("Ok len={} leaves_origin={} enters_destination={} breaks={} repeats={} unknown_edges={} digest={}", r.len(), show_bool(leaves), show_bool(enters), breaks, repeats, unknown, h)
}
pub fn term_s_long(id: usize, n: usize, shape: LongShape, dir: Dir) -> String {
    format!("SR.line_S_long {}%Z {} {}%Z {}", id, shape.coq(), n, coq_bool(dir == Dir::Reverse))
}

fn term_fires(t: &Term, size: usize, iters: u64) -> bool {
    match t {
        Term::Unlimited => false,
        Term::Iter(l) => iters + 1 > *l,
        Term::Size(l) => size > *l,
        Term::Combined(v) => v.iter().any(|x| term_fires(x, size, iters)),
    }
}

/// STATISTIC ONLY (never a verdict): a plain re-implementation of the search loop on the tables, used to count how
/// many generated cases reach the situation "a vertex that already has a child in the tree is back on the queue
/// (re-opened) when the destination is popped".  Returns false when the search does not end by popping the target.
pub fn reopened_and_target_popped_first(w: &World, q: &Query) -> bool {
    let key = |e: usize| if q.dir == Dir::Forward { w.edges[e].1 } else { w.edges[e].0 };
    let term = |e: usize| if q.dir == Dir::Forward { w.edges[e].0 } else { w.edges[e].1 };
    let (source, target) = match q.orient {
        Orient::Vertex => match q.target {
            Some(t) => (q.source, t),
            None => return false,
        },
        Orient::Edge => match q.target {
            Some(te) if q.source < w.edges.len() && te < w.edges.len() && te != q.source && key(q.source) != term(te) => (key(q.source), term(te)),
            _ => return false,
        },
    };
    if source >= w.n || target >= w.n || source == target {
        return false;
    }
    let wf = q.query_wf.unwrap_or(match q.alg {
        Alg::Dijkstra => 0.0,
        Alg::AStar(None) => 1.0,
        Alg::AStar(Some(x)) => x,
    });
    let pos = |x: f64| if x <= 0.0 { 1e-10 } else { x };
    let hval = |v: usize, st: f64| {
        let d = (st + w.h.get(v).copied().unwrap_or(0.0)) - st;
        (if d < 0.0 { 0.0 } else { d }) * wf
    };
    let mut g: HashMap<usize, f64> = HashMap::from([(source, 0.0)]);
    let mut tree: HashMap<usize, (usize, usize, f64)> = HashMap::new(); // v -> (parent, edge, state)
    let mut pq: Vec<(usize, f64)> = vec![(source, hval(source, w.init))];
    let mut iters = 0u64;
    for _ in 0..(50 * (w.n + w.edges.len()) + 100) {
        if term_fires(&w.term, tree.len(), iters) || pq.is_empty() {
            return false;
        }
        let mut bi = 0;
        for i in 1..pq.len() {
            if pq[i].1 < pq[bi].1 {
                bi = i;
            }
        }
        let (v, _) = pq.remove(bi);
        if v == target {
            return pq.iter().any(|(x, _)| *x != target && tree.values().any(|(p, _, _)| p == x));
        }
        let (last, st) = if v == source { (None, w.init) } else { let t = tree[&v]; (Some(t.1), t.2) };
        for e in 0..w.edges.len() {
            if term(e) != v {
                continue;
            }
            if w.ferr.contains(&e) || w.terr.contains(&e) {
                return false;
            }
            if w.forbid.contains(&e) || last.map_or(false, |l| w.fturn.contains(&(l, e))) {
                continue;
            }
            let (mut ac, mut st1) = (0.0, st);
            if let Some(l) = last {
                let (p, n) = if q.dir == Dir::Forward { (l, e) } else { (e, l) };
                if let Some((_, _, c)) = w.turn.iter().rev().find(|(a, b, _)| *a == p && *b == n) {
                    st1 = st + c;
                }
                ac = pos(st1 - st);
            }
            let st2 = st1 + w.cost[e];
            let total = pos(st2 - st);
            let inc = pos(ac + (total - ac));
            let tent = g[&v] + inc;
            let kv = key(e);
            if g.get(&kv).map_or(true, |ex| tent < *ex) {
                g.insert(kv, tent);
                tree.insert(kv, (v, e, st2));
                let f = tent + hval(kv, st);
                match pq.iter_mut().find(|(x, _)| *x == kv) {
                    Some(ent) => {
                        if f < ent.1 {
                            ent.1 = f;
                        }
                    }
                    None => pq.push((kv, f)),
                }
            }
        }
        iters += 1;
    }
    false
}
