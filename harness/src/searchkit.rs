//! Shared helpers for the graph/search correspondence streams (C01 C02 C04 C05 C10 C13): owned by the C01 work item.
