"""Generates MANIFEST.json from the table below (run: python3 lib/manifest.py)."""
import json
import os

ROOT = os.path.dirname(os.path.dirname(os.path.abspath(__file__)))

CHECKS = {
    "C11": dict(
        text="Kernel-checked refinement proof (Coq 8.16.1): every reachable state of the CompactOrderedHashMap model (any constructor, any sequence of inserts/overwrites, any size) represents the insertion-ordered association list obtained by the same operations, and every observer (len, iter, keys, to_vec, get, get_index, get_pair) returns what the list says; slots are exactly 0..n-1, never shared, skipped or moved. The hand-written model is tied to the Rust code on every run by a differential correspondence stream (op sequences, every observable after every op, model evaluated with vm_compute) and the specification itself is evaluated on the same cases against the implementation's output.",
        design="DESIGN.md section 4 C11",
        note="Trusted: Coq kernel and vm_compute; the hand transcription coq/Model/CompactMap.v (agreement with the code measured per run, not proved); std HashMap specified as a finite map with unspecified iteration order; keys with decidable equality; `new` on duplicate-free keys. No axioms (Print Assumptions: closed under the global context).",
        technique="Rocq proof: refinement to an insertion-ordered list by induction over op sequences + differential correspondence"),
}

NOT_YET = {}


def main():
    props = [json.loads(l) for l in open(os.path.join(ROOT, "properties.jsonl"))]
    checks = []
    na = []
    for p in props:
        pid = p["id"]
        if pid in CHECKS:
            c = CHECKS[pid]
            checks.append({
                "property_id": pid,
                "quick_cmd": "./check %s --tier quick" % pid,
                "thorough_cmd": "./check %s --tier thorough" % pid,
                "evidence_file": "/verif/evidence/%s.json" % pid,
                "replay_cmd_template": "./check %s --replay {path}" % pid,
                "engine": "rocq-proof+correspondence",
                "level_claimed": {"category": "proof", "text": c["text"], "design_ref": c["design"]},
                "level_note": c["note"],
                "technique": c["technique"],
            })
        else:
            na.append({"property_id": pid, "reason": NOT_YET.get(pid, "not claimed yet: model, proofs and correspondence harness for this property are still being built (work in progress, see DESIGN.md section 4)")})
    m = {
        "version": 1,
        "setup_cmd": "./check --setup",
        "hooks": {
            "guard": "--cfg compass_verif",
            "enable": "RUSTFLAGS=\"--cfg compass_verif\" cargo build --release --offline (the harness crate /verif/harness builds /repo/rust/* as path dependencies with this flag)",
            "baseline_off_cmd": "cd /repo/rust && cargo test --workspace --no-fail-fast --offline",
            "source_commits": [],
            "add_only": True,
        },
        "engines": [{"name": "rocq-proof+correspondence", "path": "/verif/coq, /verif/harness, /verif/lib/vf.py",
                     "serves_properties": sorted(CHECKS),
                     "kind_free_text": "Coq 8.16.1 development (models, proofs, property theorems) + Rust differential harness evaluated against the model with vm_compute"}],
        "checks": checks,
        "notes": "Every check: builds the harness against /repo's working tree, regenerates coq/Gen, rebuilds the property's proof cone with make (full .vo), checks Print Assumptions and forbidden tokens, then runs the correspondence streams. See DESIGN.md.",
        "not_applicable": na,
    }
    json.dump(m, open(os.path.join(ROOT, "MANIFEST.json"), "w"), indent=1)


if __name__ == "__main__":
    main()
