"""Generates MANIFEST.json from lib/claims/<Cxx>.json (run: python3 lib/manifest.py).
A property is claimed iff lib/claims/<Cxx>.json exists; everything else is listed under not_applicable
with the reason given in NOT_YET (or the default work-in-progress text)."""
import glob
import json
import os

ROOT = os.path.dirname(os.path.dirname(os.path.abspath(__file__)))

CHECKS = {}
for f in sorted(glob.glob(os.path.join(ROOT, "lib", "claims", "C*.json"))):
    CHECKS[os.path.basename(f)[:-5]] = json.load(open(f))

NOT_YET = {}


def main():
    props = [json.loads(l) for l in open(os.path.join(ROOT, "properties.jsonl"))]
    checks = []
    na = []
    for p in props:
        pid = p["id"]
        if pid in CHECKS:
            c = CHECKS[pid]
            checks.append({
                "property_id": pid,
                "quick_cmd": "./check %s --tier quick" % pid,
                "thorough_cmd": "./check %s --tier thorough" % pid,
                "evidence_file": "/verif/evidence/%s.json" % pid,
                "replay_cmd_template": "./check %s --replay {path}" % pid,
                "engine": "rocq-proof+correspondence",
                "level_claimed": {"category": "proof", "text": c["text"], "design_ref": c["design"]},
                "level_note": c["note"],
                "technique": c["technique"],
            })
        else:
            na.append({"property_id": pid, "reason": NOT_YET.get(pid, "not claimed yet: model, proofs and correspondence harness for this property are still being built (work in progress, see DESIGN.md section 4)")})
    m = {
        "version": 1,
        "setup_cmd": "./check --setup",
        "hooks": {
            "guard": "--cfg compass_verif",
            "enable": "RUSTFLAGS=\"--cfg compass_verif\" cargo build --release --offline (the harness crate /verif/harness builds /repo/rust/* as path dependencies with this flag)",
            "baseline_off_cmd": "cd /repo/rust && cargo test --workspace --no-fail-fast --offline",
            "source_commits": ["2eb83aa", "3e25d7b"],
            "add_only": True,
        },
        "engines": [{"name": "rocq-proof+correspondence", "path": "/verif/coq, /verif/translator, /verif/harness, /verif/lib/vf.py",
                     "serves_properties": sorted(CHECKS),
                     "kind_free_text": "Coq 8.16.1 development (models, proofs, property theorems) + 16 source translators regenerating coq/Gen/*.v from the Rust text on every run (agreement theorems Props/Gen*.v) + Rust differential harness evaluated against the model with vm_compute (implementation, model and specification lines per case)"}],
        "checks": checks,
        "notes": "Every check: builds the harness against /repo's working tree, regenerates coq/Gen from the Rust sources (translators, fail closed), rebuilds the property's proof cone with make (full .vo), checks Print Assumptions and forbidden tokens, then runs the correspondence streams. See DESIGN.md.",
        "not_applicable": na,
    }
    json.dump(m, open(os.path.join(ROOT, "MANIFEST.json"), "w"), indent=1)


if __name__ == "__main__":
    main()
