"""Generates MANIFEST.json from the table below (run: python3 lib/manifest.py)."""
import json
import os

ROOT = os.path.dirname(os.path.dirname(os.path.abspath(__file__)))

CHECKS = {
    "C11": dict(
        text="Kernel-checked refinement proof (Coq 8.16.1): every reachable state of the CompactOrderedHashMap model (any constructor, any sequence of inserts/overwrites, any size) represents the insertion-ordered association list obtained by the same operations, and every observer (len, iter, keys, to_vec, get, get_index, get_pair) returns what the list says; slots are exactly 0..n-1, never shared, skipped or moved. The hand-written model is tied to the Rust code on every run by a differential correspondence stream (op sequences, every observable after every op, model evaluated with vm_compute) and the specification itself is evaluated on the same cases against the implementation's output.",
        design="DESIGN.md section 4 C11",
        note="Trusted: Coq kernel and vm_compute; the hand transcription coq/Model/CompactMap.v (agreement with the code measured per run, not proved); std HashMap specified as a finite map with unspecified iteration order; keys with decidable equality; `new` on duplicate-free keys. No axioms (Print Assumptions: closed under the global context).",
        technique="Rocq proof: refinement to an insertion-ordered list by induction over op sequences + differential correspondence"),
    "C09": dict(
        text="Kernel-checked proofs (Coq 8.16.1, closed under the global context) over the exact-rational reading of the unit model and the factor table REGENERATED from the Rust unit files on every run: every conversion is multiplication by one constant (additive, homogeneous), identity for equal units, round trip within 0.1 % for all 77 ordered pairs of the six families and every rational magnitude and sign (finite table fact by vm_compute, lifted by linearity), agreement within 0.1 % with an explicit exact SI table for distance, time, speed, grade, weight; Time/Speed/Energy constructors equal distance/speed, distance/time, rate*distance times the combined table factor, within 0.31 % / 0.1 % of the SI definition for all 60+60+25 unit combinations; create_time returns Err for speed <= 0 or distance <= 0. The table is tied to the code by a second, behavioural extraction from the compiled functions and by a bit-exact binary64 execution of the model against the real convert/create functions; the specification is also evaluated in Coq on the implementation's outputs.",
        design="DESIGN.md section 4 C09",
        note="Trusted: Coq kernel + vm_compute; the SI/energy-rate specification tables and tolerances in Props/C09.v (C09Spec); hand transcription of builders in Model/Units.v (agreement measured per run, not proved); translator/tr_units.py (cross-checked by behavioural extraction). Theorems are about real arithmetic: rounding, overflow, NaN, subnormals are outside them (exercised bit-exactly; a differing-bits case is accepted only within 1e-9 relative of the exact model value, outcome class only next to the subnormal/overflow range; 0 such cases on the pinned tree). Energy family: linearity, identity, round trip only. Accumulated constructor tolerance 0.31 %. No axioms.",
        technique="Rocq proof: finite table facts over the translator-regenerated factor table lifted to all magnitudes by linearity + behavioural table extraction + bit-exact differential correspondence + verified-spec evaluation on implementation output"),
}

NOT_YET = {}


def main():
    props = [json.loads(l) for l in open(os.path.join(ROOT, "properties.jsonl"))]
    checks = []
    na = []
    for p in props:
        pid = p["id"]
        if pid in CHECKS:
            c = CHECKS[pid]
            checks.append({
                "property_id": pid,
                "quick_cmd": "./check %s --tier quick" % pid,
                "thorough_cmd": "./check %s --tier thorough" % pid,
                "evidence_file": "/verif/evidence/%s.json" % pid,
                "replay_cmd_template": "./check %s --replay {path}" % pid,
                "engine": "rocq-proof+correspondence",
                "level_claimed": {"category": "proof", "text": c["text"], "design_ref": c["design"]},
                "level_note": c["note"],
                "technique": c["technique"],
            })
        else:
            na.append({"property_id": pid, "reason": NOT_YET.get(pid, "not claimed yet: model, proofs and correspondence harness for this property are still being built (work in progress, see DESIGN.md section 4)")})
    m = {
        "version": 1,
        "setup_cmd": "./check --setup",
        "hooks": {
            "guard": "--cfg compass_verif",
            "enable": "RUSTFLAGS=\"--cfg compass_verif\" cargo build --release --offline (the harness crate /verif/harness builds /repo/rust/* as path dependencies with this flag)",
            "baseline_off_cmd": "cd /repo/rust && cargo test --workspace --no-fail-fast --offline",
            "source_commits": [],
            "add_only": True,
        },
        "engines": [{"name": "rocq-proof+correspondence", "path": "/verif/coq, /verif/harness, /verif/lib/vf.py",
                     "serves_properties": sorted(CHECKS),
                     "kind_free_text": "Coq 8.16.1 development (models, proofs, property theorems) + Rust differential harness evaluated against the model with vm_compute"}],
        "checks": checks,
        "notes": "Every check: builds the harness against /repo's working tree, regenerates coq/Gen, rebuilds the property's proof cone with make (full .vo), checks Print Assumptions and forbidden tokens, then runs the correspondence streams. See DESIGN.md.",
        "not_applicable": na,
    }
    json.dump(m, open(os.path.join(ROOT, "MANIFEST.json"), "w"), indent=1)


if __name__ == "__main__":
    main()
