"""Shared machinery of the /verif checks (see DESIGN.md section 1.4).

A check of property Cxx (checks/cxx.py) does, through this library:
  1. build the Rust harness binary against /repo's current working tree (hooks on),
  2. regenerate coq/Gen/*.v with the translators, build Props/Cxx.vo and everything it depends
     on with `make` (full .vo), grep for forbidden tokens, compare Print Assumptions with an
     allow-list, count obligations,
  3. run correspondence streams: implementation lines vs model lines (model evaluated by coqc
     with vm_compute), and the verified checker / specification lines on implementation output,
  4. decide: exit 0, KNOWN-FINDING lines, or VIOLATION lines with a replay file,
  5. write evidence/Cxx.json.
"""
import concurrent.futures as cf
import fcntl
import hashlib
import json
import os
import re
import shutil
import subprocess
import sys
import time

ROOT = os.path.dirname(os.path.dirname(os.path.abspath(__file__)))
BUILD = os.path.join(ROOT, "build")
# VERIF_REPO=<dir>: run the same check against another checkout of routee-compass (a scratch
# worktree with a seeded change) without touching /repo, /verif/coq, /verif/evidence: everything
# that depends on the repository (harness build, generated Coq tables, cases, evidence, replay
# files) then lives under build/alt/<name>/.
ALT = os.environ.get("VERIF_REPO")
if ALT:
    ALT = os.path.abspath(ALT)
    REPO = ALT
    BASE = os.path.join(BUILD, "alt", os.path.basename(ALT.rstrip("/")))
    COQ = os.path.join(BASE, "coq")
    HARNESS = os.path.join(BASE, "harness")
    TARGET = os.path.join(BASE, "target")
    OUT = BASE
else:
    REPO = "/repo"
    BASE = BUILD
    COQ = os.path.join(ROOT, "coq")
    HARNESS = os.path.join(ROOT, "harness")
    TARGET = os.path.join(BUILD, "target")
    OUT = ROOT


def prepare_alt():
    """mirror coq/ and harness/ for an alternative repository checkout"""
    if not ALT:
        return
    os.makedirs(BASE, exist_ok=True)
    subprocess.run(["rsync", "-a", "--exclude", "Gen/*.v", "--exclude", "Gen/*.vo", "--exclude", "Gen/*.glob",
                    "--exclude", ".Makefile.d", os.path.join(ROOT, "coq") + "/", COQ + "/"], check=True)
    os.makedirs(os.path.join(HARNESS, ".cargo"), exist_ok=True)
    src = os.path.join(HARNESS, "src")
    if os.path.islink(src):
        os.remove(src)
    os.symlink(os.path.join(ROOT, "harness", "src"), src)
    toml = open(os.path.join(ROOT, "harness", "Cargo.toml")).read().replace('"/repo/', '"%s/' % ALT)
    write_if_changed(os.path.join(HARNESS, "Cargo.toml"), toml)
    write_if_changed(os.path.join(HARNESS, ".cargo", "config.toml"),
                     '[net]\noffline = true\n[build]\ntarget-dir = "%s"\n' % TARGET)
GUARD = "compass_verif"
NPROC = os.cpu_count() or 8

AXIOM_ALLOW = {
    # axioms declared by the standard library that a theorem may depend on; every use is
    # reported in the evidence and named in DESIGN.md section 6.  (none needed so far)
}

PRIMITIVE_TYPES = {"float", "int", "PrimFloat.float", "Uint63.int", "PrimInt63.int", "Floats.PrimFloat.float",
                   "Numbers.Cyclic.Int63.PrimInt63.int", "Coq.Floats.PrimFloat.float"}


def is_primitive(name):
    """a kernel primitive type (float, int): NOT the FloatAxioms/Uint63 specification axioms"""
    return name in PRIMITIVE_TYPES


FORBIDDEN = re.compile(
    r"\b(Admitted|admit|Axiom|Axioms|Parameter|Parameters|Conjecture|Conjectures|Abort All)\b"
    r"|Unset\s+Guard|bypass_check|type-in-type|impredicative-set|Admit\s+Obligations|Unset\s+Positivity|Unset\s+Universe")


class CheckError(Exception):
    pass


def log(*a):
    print("[check]", *a, file=sys.stderr, flush=True)


def sh(cmd, cwd=None, timeout=3600, env=None, quiet=True):
    e = dict(os.environ)
    e["CARGO_NET_OFFLINE"] = "true"
    if env:
        e.update(env)
    p = subprocess.run(cmd, cwd=cwd, shell=isinstance(cmd, str), env=e, timeout=timeout,
                       stdout=subprocess.PIPE, stderr=subprocess.STDOUT, text=True, errors="replace")
    return p.returncode, p.stdout


class Lock:
    def __init__(self, name):
        os.makedirs(BASE, exist_ok=True)
        self.path = os.path.join(BASE, "." + name + ".lock")

    def __enter__(self):
        self.f = open(self.path, "w")
        fcntl.flock(self.f, fcntl.LOCK_EX)

    def __exit__(self, *a):
        fcntl.flock(self.f, fcntl.LOCK_UN)
        self.f.close()


# --------------------------------------------------------------------------- harness build

def build_harness(binname, profile="release"):
    """cargo build of one harness binary against the current /repo tree. Returns (path, log) or raises."""
    with Lock("cargo"):
        lock_src = os.path.join(REPO, "rust", "Cargo.lock")
        if not os.path.exists(lock_src):
            lock_src = "/repo/rust/Cargo.lock"
        if not os.path.exists(lock_src):
            lock_src = os.path.join(ROOT, "harness", "Cargo.lock.pinned")
        lock_dst = os.path.join(HARNESS, "Cargo.lock")
        if not os.path.exists(lock_dst):
            shutil.copy(lock_src, lock_dst)
        cmd = ["cargo", "build", "--offline", "--bin", binname]
        cmd += ["--release"] if profile == "release" else ["--profile", profile]
        # the target dir is given explicitly so that a copy of /verif elsewhere (vp run snapshots, VERIF_REPO
        # mode) never builds into, or looks for binaries in, another tree's build directory
        env = {"RUSTFLAGS": "--cfg %s -Awarnings" % GUARD, "CARGO_TARGET_DIR": TARGET}
        t = time.time()
        rc, out = sh(cmd, cwd=HARNESS, env=env, timeout=3000)
        if rc != 0 and "Cargo.lock" in out:
            shutil.copy(lock_src, lock_dst)
            rc, out = sh(cmd, cwd=HARNESS, env=env, timeout=3000)
        if rc != 0:
            raise CheckError("harness build failed:\n" + out[-4000:])
        log("harness %s built in %.1fs" % (binname, time.time() - t))
    return os.path.join(TARGET, profile, binname)


# --------------------------------------------------------------------------- coq build

def coq_files():
    out = []
    for d in ("Base", "Model", "Proofs", "Props", "Gen"):
        for r, _, fs in os.walk(os.path.join(COQ, d)):
            for f in fs:
                if f.endswith(".v"):
                    out.append(os.path.relpath(os.path.join(r, f), COQ))
    return sorted(out)


def coq_refresh_project():
    """regenerate _CoqProject / Makefile when the file list changed"""
    content = "-Q . RC\n" + "\n".join(coq_files()) + "\n"
    p = os.path.join(COQ, "_CoqProject")
    old = open(p).read() if os.path.exists(p) else None
    if old != content or not os.path.exists(os.path.join(COQ, "Makefile")):
        open(p, "w").write(content)
        rc, out = sh("coq_makefile -f _CoqProject -o Makefile", cwd=COQ)
        if rc != 0:
            raise CheckError("coq_makefile failed: " + out)


def write_if_changed(path, content):
    old = open(path).read() if os.path.exists(path) else None
    if old != content:
        os.makedirs(os.path.dirname(path), exist_ok=True)
        open(path, "w").write(content)
        return True
    return False


def run_translators(which=None):
    """regenerate coq/Gen/*.v from /repo's sources. Returns dict name -> {'ok', 'msg', 'digest'}"""
    sys.path.insert(0, os.path.join(ROOT, "translator"))
    import translate  # noqa
    return translate.run_all(REPO, os.path.join(COQ, "Gen"), which)


def coq_make(targets, timeout=3000, jobs=NPROC):
    with Lock("coq"):
        coq_refresh_project()
        t = time.time()
        rc, out = sh(["make", "-k", "-j%d" % jobs] + list(targets), cwd=COQ, timeout=timeout)
        log("coq make %s: rc=%d in %.1fs" % (" ".join(targets), rc, time.time() - t))
    return rc == 0, out


REQ_RE = re.compile(r"From\s+RC\s+Require\s+(?:Import\s+|Export\s+)?([^.]*(?:\.[A-Za-z_][^.\s]*)*)\s*\.\s", re.S)


def strip_comments(src):
    out, depth, i = [], 0, 0
    while i < len(src):
        if src.startswith("(*", i):
            depth += 1
            i += 2
        elif src.startswith("*)", i) and depth > 0:
            depth -= 1
            i += 2
        else:
            if depth == 0:
                out.append(src[i])
            elif src[i] == "\n":
                out.append("\n")
            i += 1
    return "".join(out)


def coq_deps(vfile, seen=None):
    """transitive project-local dependencies of a .v file (relative paths), including itself"""
    seen = seen if seen is not None else []
    if vfile in seen:
        return seen
    seen.append(vfile)
    src = strip_comments(open(os.path.join(COQ, vfile)).read())
    for m in re.finditer(r"From\s+RC\s+Require\s+(?:Import|Export)?\s*([A-Za-z0-9_.\s]+?)\.(?=\s)", src):
        for mod in m.group(1).split():
            p = mod.replace(".", "/") + ".v"
            if os.path.exists(os.path.join(COQ, p)):
                coq_deps(p, seen)
            elif p.startswith("Gen/") and p not in seen:
                seen.append(p)  # generated, not there yet (fresh alternate checkout): proof_obligations regenerates it
    for m in re.finditer(r"Require\s+(?:Import|Export)?\s*((?:RC\.[A-Za-z0-9_.]+\s*)+)\.(?=\s)", src):
        for mod in m.group(1).split():
            p = mod[3:].replace(".", "/") + ".v"
            if os.path.exists(os.path.join(COQ, p)):
                coq_deps(p, seen)
    return seen


STMT_RE = re.compile(r"^\s*(?:Local\s+|Global\s+|#\[[^\]]*\]\s*)*(Theorem|Lemma|Corollary|Example|Fact|Proposition|Remark)\s+([A-Za-z0-9_']+)", re.M)


def count_obligations(files):
    """(names of all theorem-like statements, forbidden hits) over the given .v files"""
    names, bad = [], []
    for f in files:
        src = strip_comments(open(os.path.join(COQ, f)).read())
        for m in STMT_RE.finditer(src):
            names.append((f, m.group(2), src.count("\n", 0, m.start()) + 1))
        for m in FORBIDDEN.finditer(src):
            bad.append("%s:%d: %s" % (f, src.count("\n", 0, m.start()) + 1, m.group(0)))
        # Variable/Hypothesis outside a Section declares an axiom
        depth = 0
        for ln, line in enumerate(src.split("\n"), 1):
            if re.match(r"\s*Section\s+\w+", line):
                depth += 1
            elif re.match(r"\s*End\s+\w+", line) and depth > 0:
                depth -= 1  # (also matches Module ends; modules are not nested in sections here)
            elif depth == 0 and re.match(r"\s*(Variable|Variables|Hypothesis|Hypotheses|Context)\b", line):
                bad.append("%s:%d: %s outside a Section" % (f, ln, line.strip()[:40]))
    return names, bad


GEN_TRANSLATOR = {"UnitTables": "units", "CostConsts": "cost", "TurnTable": "turn", "CostRates": "costrates",
                  "Haversine": "haversine", "SinkFormat": "sinkformat", "Soc": "soc", "StateFeature": "statefeature",
                  "TerminationModel": "termination", "FrontierModels": "frontier", "RouteSimilarity": "similarity",
                  "TraversalModels": "travmodels", "TraversalOutput": "outputformat", "GridSearchConsts": "gridsearch"}


def proof_obligations(prop, extra_targets=(), extra_props=()):
    """Build Props/<prop>.vo (forcing the Props file itself to recompile so that its
    Print Assumptions output is in the log). Returns a dict describing the proof side."""
    props_v = "Props/%s.v" % prop
    res = {"ok": False, "obligations": 0, "discharged": 0, "broken": [], "axioms": [],
           "closed": 0, "forbidden": [], "log_tail": "", "files": []}
    if not os.path.exists(os.path.join(COQ, props_v)):
        res["broken"].append("missing " + props_v)
        return res
    coq_refresh_project()
    files = [f for f in coq_deps(props_v)]
    for ep in extra_props:  # further theorem files checked together with this property (e.g. Props/Links.v)
        if os.path.exists(os.path.join(COQ, ep)):
            for f in coq_deps(ep):
                if f not in files:
                    files.append(f)
            evo = os.path.join(COQ, ep + "o")
            if os.path.exists(evo):
                os.remove(evo)
            extra_targets = list(extra_targets) + [ep + "o"]
        else:
            res["broken"].append("missing " + ep)
    res["files"] = files
    # every generated table in the dependency cone is regenerated from REPO's current sources, also for checks that
    # do not report on a translator themselves (write-if-changed: nothing is rebuilt when the source did not change)
    gen_needed = sorted({GEN_TRANSLATOR[os.path.basename(f)[:-2]] for f in files
                         if f.startswith("Gen/") and os.path.basename(f)[:-2] in GEN_TRANSLATOR})
    if gen_needed:
        with Lock("gen"):
            tr = run_translators(which=gen_needed)
        res["generated"] = {k: {"ok": v.get("ok"), "digest": v.get("digest")} for k, v in tr.items()}
    names, bad = count_obligations([f for f in files if not f.startswith("Gen/")])
    res["obligations"] = len(names)
    res["forbidden"] = bad
    vo = os.path.join(COQ, props_v + "o")
    if os.path.exists(vo):
        os.remove(vo)
    ok, out = coq_make([props_v + "o"] + list(extra_targets))
    res["log_tail"] = out[-3000:]
    # which files failed?
    failed = {}
    for m in re.finditer(r'File "\./([^"]+)", line (\d+), characters[^\n]*\n(Error[^\n]*(?:\n(?!make)[^\n]*){0,8})', out):
        failed.setdefault(m.group(1), (int(m.group(2)), m.group(3)))
    not_built = [f for f in files if not os.path.exists(os.path.join(COQ, f + "o"))]
    discharged = 0
    for (f, name, line) in names:
        if f in failed:
            if line < failed[f][0] and not any(l2 > line and l2 <= failed[f][0] for (f2, _, l2) in names if f2 == f):
                discharged += 1  # statements strictly before the one that failed
            elif line < failed[f][0]:
                # an earlier statement in the failing file: its proof was checked before the error
                nxt = min([l2 for (f2, _, l2) in names if f2 == f and l2 > line] or [10**9])
                if nxt <= failed[f][0]:
                    discharged += 1
        elif f not in not_built:
            discharged += 1
    res["discharged"] = discharged
    for f, (ln, msg) in failed.items():
        # name the statement that contains the failing line
        owner = [n for (f2, n, l2) in names if f2 == f and l2 <= ln]
        res["broken"].append({"file": f, "line": ln, "statement": owner[-1] if owner else None,
                              "error": " ".join(msg.split())[:400]})
    for f in not_built:
        if f not in failed:
            res["broken"].append({"file": f, "line": 0, "statement": None, "error": "not built (dependency failed)"})
    # Print Assumptions output
    res["closed"] = out.count("Closed under the global context")
    for m in re.finditer(r"Axioms:\n((?:.+\n)+?)(?=\S|\Z)", out):
        for ax in re.findall(r"^([A-Za-z0-9_.']+)\s*:", m.group(1), re.M):
            if ax not in res["axioms"]:
                res["axioms"].append(ax)
    # kernel primitives (the binary64 / 63-bit integer types and operations behind Base/Json.v's
    # JFloat and the FN execution instance) are listed by Print Assumptions under "Axioms:" in
    # Coq 8.16 although they are not logical axioms; they are reported separately.
    res["primitives"] = [a for a in res["axioms"] if is_primitive(a)]
    res["axioms"] = [a for a in res["axioms"] if not is_primitive(a)]
    unexpected = [a for a in res["axioms"] if a.split(".")[-1] not in AXIOM_ALLOW and a not in AXIOM_ALLOW]
    res["unexpected_axioms"] = unexpected
    res["ok"] = ok and not res["broken"] and not bad and not unexpected and res["discharged"] == res["obligations"]
    return res


# --------------------------------------------------------------------------- model evaluation

STR_RE = re.compile(r'= "((?:[^"]|"")*)"\s*:\s*string', re.S)


def coq_eval_file(path, timeout=1200):
    rc, out = sh(["coqc", "-noglob", "-Q", COQ, "RC", "-o", path + "o", path], timeout=timeout)
    try:
        os.remove(path + "o")
    except OSError:
        pass
    lines = [m.group(1).replace('""', '"') for m in STR_RE.finditer(out)]
    err = None
    if rc != 0:
        err = out[-1500:]
    return lines, err


def coq_eval(paths, timeout=1200):
    """evaluate case files in parallel; returns (lines, errors)"""
    lines, errs = [], []
    with cf.ThreadPoolExecutor(max_workers=NPROC) as ex:
        for p, (ls, err) in zip(paths, ex.map(lambda p: coq_eval_file(p, timeout), paths)):
            lines += ls
            if err:
                errs.append({"file": p, "error": err})
    return lines, errs


def split_lines(lines):
    """'TAG ID payload' -> {tag: {id: payload}}"""
    d = {}
    for ln in lines:
        ln = ln.rstrip("\n")
        if not ln:
            continue
        parts = ln.split(" ", 2)
        if len(parts) < 2:
            continue
        tag, cid = parts[0], parts[1]
        d.setdefault(tag, {})[cid] = parts[2] if len(parts) > 2 else ""
    return d


class StreamResult:
    def __init__(self):
        self.name = ""
        self.impl = {}
        self.model = {}
        self.cases = {}
        self.stats = {}
        self.errors = []
        self.dir = ""


def run_stream(binpath, stream, n, seed, outdir, extra=(), shards=NPROC, timeout=3000, replay=None):
    """run one harness stream and evaluate its case files with coqc"""
    if os.path.isdir(outdir):
        shutil.rmtree(outdir)
    os.makedirs(outdir)
    cmd = [binpath, stream, "--seed", str(seed), "--n", str(n), "--out", outdir, "--shards", str(shards)] + list(extra)
    if replay:
        cmd += ["--replay", replay]
    t = time.time()
    rc, out = sh(cmd, timeout=timeout)
    r = StreamResult()
    r.name, r.dir = stream, outdir
    if rc != 0:
        r.errors.append({"file": "harness", "error": out[-3000:]})
        return r
    log("stream %s: harness %.1fs" % (stream, time.time() - t))
    implf = os.path.join(outdir, stream + ".impl")
    r.impl = split_lines(open(implf).read().split("\n"))
    for ln in open(os.path.join(outdir, stream + ".cases.jsonl")):
        c = json.loads(ln)
        r.cases[str(c["id"])] = c
    r.stats = json.load(open(os.path.join(outdir, stream + ".stats.json")))
    vs = sorted(os.path.join(outdir, f) for f in os.listdir(outdir) if f.startswith(stream + "_") and f.endswith(".v"))
    t = time.time()
    lines, errs = coq_eval(vs)
    log("stream %s: model evaluation of %d files %.1fs" % (stream, len(vs), time.time() - t))
    r.model = split_lines(lines)
    r.errors += errs
    return r


# --------------------------------------------------------------------------- verdicts / evidence

class Check:
    def __init__(self, prop, argv):
        self.prop = prop
        self.tier = os.environ.get("VERIF_TIER", "quick")
        self.replay = None
        it = iter(argv)
        for a in it:
            if a == "--tier":
                self.tier = next(it)
            elif a == "--replay":
                self.replay = next(it)
        if self.tier not in ("quick", "thorough"):
            self.tier = "quick"
        try:
            self.seed = int(os.environ.get("VERIF_SEED", "1"))
        except ValueError:
            self.seed = 1
        self.t0 = time.time()
        self.violations = []      # dicts written to replay files
        self.known = []           # KNOWN-FINDING lines
        self.coverage = {"evaluations": 0, "distinct_nontrivial": 0, "rule": "", "samples": [],
                         "obligations": 0, "discharged": 0, "checker_cmd": "", "trusted_base": [],
                         "traces_validated_against_impl": 0, "streams": {}}
        self.assumptions = []
        prepare_alt()
        self.outdir = os.path.join(BASE, "cases", prop)
        kf = json.load(open(os.path.join(ROOT, "known_findings.json")))
        self.findings = [f for f in kf.get("findings", []) if f["property"] == prop]
        self.seen_keys = set()

    # -- proof side
    def proofs(self, extra_targets=(), extra_props=()):
        p = proof_obligations(self.prop, extra_targets, extra_props)
        c = self.coverage
        c["obligations"], c["discharged"] = p["obligations"], p["discharged"]
        c["print_assumptions_closed"] = p["closed"]
        c["axioms"] = p["axioms"]
        c["kernel_primitives"] = p.get("primitives", [])
        c["proof_files"] = p["files"]
        c["checker_cmd"] = "cd /verif/coq && make Props/%s.vo  (coqc 8.16.1 kernel, full .vo build)" % self.prop
        self.proof = p
        if self.tier == "thorough" and p["ok"] and "coqchk" not in c:
            # independent re-check of the compiled theorems and everything they depend on
            t = time.time()
            rc, out = sh(["coqchk", "-silent", "-o", "-Q", COQ, "RC", "RC.Props.%s" % self.prop], timeout=3000)
            summ = out[out.find("CONTEXT SUMMARY"):] if "CONTEXT SUMMARY" in out else out[-1500:]
            sect = {}
            for m in re.finditer(r"\* ([^:\n]+):\s*(.*?)(?=\n\s*\n\* |\Z)", summ, re.S):
                sect[m.group(1).strip()] = " ".join(m.group(2).split())
            bad = [k for k, v in sect.items() if k != "Axioms" and not k.startswith("Theory") and v != "<none>"]
            c["coqchk"] = {"rc": rc, "wall_s": round(time.time() - t, 1), "summary": sect,
                           "cmd": "coqchk -silent -o -Q /verif/coq RC RC.Props.%s" % self.prop}
            if rc != 0 or bad:
                p["ok"] = False
                p["broken"].append({"file": "Props/%s.vo" % self.prop, "line": 0, "statement": None,
                                    "error": "coqchk: rc=%d %s %s" % (rc, bad, out[-400:])})
        if not p["ok"]:
            what = []
            for b in p["broken"]:
                what.append(b if isinstance(b, str) else "%s:%s %s: %s" % (b["file"], b["line"], b["statement"], b["error"]))
            what += ["forbidden: " + x for x in p["forbidden"]]
            what += ["unexpected axiom: " + a for a in p.get("unexpected_axioms", [])]
            if p["discharged"] != p["obligations"] and not what:
                what.append("discharged %d of %d" % (p["discharged"], p["obligations"]))
            self.broken_obligation = what
        else:
            self.broken_obligation = None
        return p

    # -- correspondence side
    def add_stream(self, r, rule, nontrivial=None):
        s = self.coverage["streams"]
        s[r.name] = {"cases": r.stats.get("cases", 0), "hist": r.stats.get("hist", {}),
                     "distinct_nontrivial": r.stats.get("distinct_nontrivial", 0), "rule": rule}
        self.coverage["evaluations"] += r.stats.get("cases", 0)
        self.coverage["distinct_nontrivial"] += r.stats.get("distinct_nontrivial", 0)
        self.coverage["traces_validated_against_impl"] += len(r.impl.get("I", {}))
        if rule and rule not in self.coverage["rule"]:
            self.coverage["rule"] += ("; " if self.coverage["rule"] else "") + r.name + ": " + rule
        for k in list(r.cases)[:2] + list(r.cases)[-1:]:
            if len(self.coverage["samples"]) < 8:
                smp = dict(r.cases[k])
                smp["stream"] = r.name
                smp["impl"] = (r.impl.get("I", {}).get(k, "") or "")[:300]
                self.coverage["samples"].append(smp)

    def violation(self, kind, stream, case, observed, expected, detail="", found=True, key=None):
        """record a violation; `found` = a concrete failing input was identified"""
        key = key or hashlib.sha1(json.dumps([kind, stream, case], sort_keys=True, default=str).encode()).hexdigest()[:12]
        if key in self.seen_keys:
            return
        self.seen_keys.add(key)
        self.violations.append({"property": self.prop, "kind": kind, "stream": stream, "seed": self.seed,
                                "case": case, "observed": observed, "expected": expected, "detail": detail,
                                "found_failing_input": found, "key": key})

    def known_finding(self, fid, what):
        """one KNOWN-FINDING line per listed finding id (first witness of this run + how many cases fell in the class)"""
        if not hasattr(self, "known_by_id"):
            self.known_by_id = {}
        e = self.known_by_id.setdefault(fid, {"first": what, "n": 0})
        e["n"] += 1
        descr = next((f.get("what", "") for f in self.findings if f["id"] == fid), "")
        self.known = ["KNOWN-FINDING: property=%s %s: %s [%d case(s) of this run in the class; first: %s]"
                      % (self.prop, i, next((f.get("what", "") for f in self.findings if f["id"] == i), "")[:300],
                         v["n"], v["first"][:300]) for i, v in sorted(self.known_by_id.items())]

    def finding_ids(self):
        return {f["id"] for f in self.findings}

    def finish(self):
        os.makedirs(os.path.join(OUT, "evidence", "replay"), exist_ok=True)
        for k in self.known:
            print(k)
        # at most a handful of VIOLATION lines: concrete failing inputs first
        vs = sorted(self.violations, key=lambda v: (not v["found_failing_input"]))
        printed = 0
        for v in vs:
            if printed >= 5:
                break
            path = os.path.join(OUT, "evidence", "replay", "%s-%s.json" % (self.prop, v["key"]))
            v["cmd"] = "cd /verif && ./check %s --replay %s" % (self.prop, path)
            json.dump(v, open(path, "w"), indent=1, default=str)
            tail = "" if v["found_failing_input"] else " no-failing-input-found"
            print("VIOLATION property=%s replay=%s%s" % (self.prop, path, tail))
            printed += 1
        c = self.coverage
        if not c["samples"]:
            c["samples"] = [{"note": "no correspondence stream ran", "obligations": c.get("proof_files", [])}]
        ev = {"property_id": self.prop, "tier": self.tier, "seed": self.seed, "level": "proof",
              "coverage": c, "assumptions": self.assumptions, "wall_s": round(time.time() - self.t0, 1),
              "violations": len(self.violations), "known_findings_reported": self.known}
        json.dump(ev, open(os.path.join(OUT, "evidence", "%s.json" % self.prop), "w"), indent=1, default=str)
        log("%s %s: %d violations, %d known findings, %.1fs" % (self.prop, self.tier, len(self.violations), len(self.known), time.time() - self.t0))
        return 1 if self.violations else 0


def expand_case(binpath, stream, case, outdir, extra=()):
    """re-run one case uncompressed (full payloads) -> (impl, model) tag dictionaries for that case"""
    os.makedirs(outdir, exist_ok=True)
    rp = os.path.join(outdir, "replay_case.json")
    json.dump({"case": case}, open(rp, "w"))
    os.environ["VERIF_FULL"] = "1"
    try:
        r = run_stream(binpath, stream, 1, 0, os.path.join(outdir, "replay"), extra=extra, shards=1, replay=rp)
    finally:
        os.environ.pop("VERIF_FULL", None)
    impl = {t: next(iter(d.values()), None) for t, d in r.impl.items()}
    model = {t: next(iter(d.values()), None) for t, d in r.model.items()}
    return impl, model


def compare(chk, r, model_tag="M", spec_tag="S", classify=None, stream_label=None, binpath=None, extra=()):
    """generic comparison of one stream:
       I vs M  = correspondence (is the model the code?),
       I vs S  = the property itself (specification evaluated in Coq on the same case), when present.
       classify(case, impl, model, spec) may return the id of a known finding for a failing case."""
    label = stream_label or r.name
    I, M, S = r.impl.get("I", {}), r.model.get(model_tag, {}), r.model.get(spec_tag, {})
    ncorr, nprop = 0, 0
    for e in r.errors:
        chk.violation("broken-correspondence", label, {"file": e["file"]}, e["error"][-800:], "model evaluates",
                      detail="harness or coqc failed on this stream", found=False, key="err-" + label)
    for cid, case in r.cases.items():
        i, m, s = I.get(cid), M.get(cid), S.get(cid)
        prop_fail = s is not None and s != "unspecified" and i != s
        corr_fail = m is not None and i != m
        if cid not in M and not r.errors:
            corr_fail = True
            m = "<no model line>"
        if not prop_fail and not corr_fail:
            continue
        if binpath and (ncorr + nprop) < 3 and any(x and x.startswith("#") for x in (i, m, s)):
            try:
                fi, fm = expand_case(binpath, r.name, case, os.path.join(chk.outdir, "expand"), extra)
                i, m, s = fi.get("I", i), fm.get(model_tag, m), fm.get(spec_tag, s)
            except Exception as e:  # noqa
                log("expand failed", e)
        fid = classify(case, i, m, s) if classify else None
        if fid and fid in chk.finding_ids():
            chk.known_finding(fid, "case %s of stream %s" % (json.dumps(case)[:200], label))
            continue
        if prop_fail:
            nprop += 1
            chk.violation("impl-counterexample", label, case, i, s,
                          detail="implementation output differs from the specification evaluated on the same input")
        else:
            ncorr += 1
            chk.violation("broken-correspondence", label, case, i, m,
                          detail="implementation and model disagree; the specification/checker accepts the implementation output on this case",
                          found=False, key="corr-" + label)
    return ncorr, nprop
