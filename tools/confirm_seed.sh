#!/bin/bash
# usage: tools/confirm_seed.sh <adv worktree> <change dir>   -- confirms: patch applies, build+tests pass with it,
# demo fails with it and passes without it. Leaves the worktree clean.
WT=$1; CH=$2
git -C $WT checkout -q -- . ; git -C $WT apply $CH/patch.diff || { echo "patch does not apply"; exit 2; }
T=$(cd $WT/rust && CARGO_NET_OFFLINE=true cargo test --workspace --no-fail-fast --offline 2>&1 | grep -E "^test result" | awk '{p+=$4; f+=$6} END {print p" passed "f" failed"}')
echo "tests with change: $T"
rundemo() { (cd $CH/demo 2>/dev/null && CARGO_TARGET_DIR=$WT/rust/target/demo CARGO_NET_OFFLINE=true cargo run --offline -q >/tmp/demo.out 2>&1; echo $?) ; }
if [ -d $CH/demo ]; then
  W=$(rundemo); echo "demo with change: exit $W"; tail -2 /tmp/demo.out
  git -C $WT checkout -q -- .
  O=$(rundemo); echo "demo without change: exit $O"; tail -1 /tmp/demo.out
else echo "no demo dir: $(ls $CH)"; git -C $WT checkout -q -- .; fi
