#!/usr/bin/env python3
"""Regenerates the generated tables of DESIGN.md section 8 (between <!-- gen:NAME --> and <!-- /gen:NAME -->)
from known_findings.json, seeded/*/meta.json, lib/claims and evidence/*.json."""
import glob, json, os, re
ROOT = os.path.dirname(os.path.dirname(os.path.abspath(__file__)))
kf = json.load(open(os.path.join(ROOT, "known_findings.json")))

def esc(s):
    return str(s).replace("|", "\\|").replace("\n", " ")

def fixed_table():
    rows = ["| property | id | commit | what failed on the unchanged tree |", "|---|---|---|---|"]
    for f in kf["fixed"]:
        rows.append("| %s | %s | `%s` | %s |" % (f["property"], f["id"], f["commit"], esc(f["what"])[:420]))
    return "\n".join(rows)

def findings_table():
    rows = ["| property | id | class (what a case must look like to be exempt) | what fails |", "|---|---|---|---|"]
    seen = set()
    for f in kf["findings"]:
        rows.append("| %s | %s | %s | %s |" % (f["property"], f["id"], esc(f["class"]), esc(f["what"])[:420]))
    return "\n".join(rows)

def seeds_table():
    rows = ["| seed | breaks | change (one line) | needs | verdict of the checks |", "|---|---|---|---|---|"]
    for d in sorted(glob.glob(os.path.join(ROOT, "seeded", "*"))):
        try:
            m = json.load(open(os.path.join(d, "meta.json")))
        except Exception:
            continue
        rows.append("| %s | %s | %s | %s | %s |" % (os.path.basename(d), m.get("breaks_property", ""), esc(m.get("summary", ""))[:260],
                                                esc(m.get("needs", ""))[:220], esc(m.get("detected_by", ""))[:320]))
    return "\n".join(rows)

def checks_table():
    rows = ["| property | obligations (discharged) | quick cases | distinct non-trivial | quick wall (s) | known findings printed |", "|---|---|---|---|---|---|"]
    for f in sorted(glob.glob(os.path.join(ROOT, "evidence", "C*.json"))):
        e = json.load(open(f)); c = e["coverage"]
        rows.append("| %s | %s (%s) | %s | %s | %s | %s |" % (e["property_id"], c.get("obligations"), c.get("discharged"), c.get("evaluations"),
                                                          c.get("distinct_nontrivial"), e.get("wall_s"), len(e.get("known_findings_reported", []))))
    return "\n".join(rows)

GEN = {"fixed": fixed_table, "findings": findings_table, "seeds": seeds_table, "checks": checks_table}
p = os.path.join(ROOT, "DESIGN.md")
s = open(p).read()
for name, fn in GEN.items():
    pat = re.compile(r"(<!-- gen:%s -->\n)(?:.*?\n)??(<!-- /gen:%s -->)" % (name, name), re.S)
    if pat.search(s):
        s = pat.sub(lambda m: m.group(1) + fn() + "\n" + m.group(2), s)
    else:
        print("WARNING: markers for", name, "not found")
open(p, "w").write(s)
print("DESIGN.md tables regenerated")
