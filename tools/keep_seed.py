#!/usr/bin/env python3
"""usage: tools/keep_seed.py <change dir> <seed id> <property> '<detected-by text>' '<check result text>'"""
import json, os, shutil, sys
src, sid, prop, detected, result = sys.argv[1:6]
dst = os.path.join("/verif/seeded", sid)
if os.path.isdir(dst):
    shutil.rmtree(dst)
os.makedirs(dst)
shutil.copy(os.path.join(src, "patch.diff"), dst)
for name in os.listdir(src):
    p = os.path.join(src, name)
    if name in ("patch.diff", "meta.json"):
        continue
    if os.path.isdir(p):
        shutil.copytree(p, os.path.join(dst, name), ignore=shutil.ignore_patterns("target", "Cargo.lock"))
    elif os.path.getsize(p) < 200000:
        shutil.copy(p, dst)
meta = {}
try:
    meta = json.load(open(os.path.join(src, "meta.json")))
except Exception as e:  # noqa
    meta = {"note": "adversary meta.json unreadable: %s" % e}
meta["breaks_property"] = prop
meta["origin"] = "independent sub-agent given only the property text and a scratch worktree"
meta["confirmed_by_coordinator"] = "tools/confirm_seed.sh: patch applies to /repo HEAD at the time, cargo test --workspace passes (83 passed 0 failed), demo exits non-zero with the change and 0 without"
meta["checked_with"] = "tools/seedtest.sh seeded/%s/patch.diff %s  (VERIF_REPO scratch worktree)" % (sid, prop)
meta["detected_by"] = detected
meta["check_result"] = result
json.dump(meta, open(os.path.join(dst, "meta.json"), "w"), indent=1)
print("kept", dst)
