#!/bin/bash
# usage: tools/process_seeds.sh Cxx  -- confirm + run the check against /tmp/adv/out_Cxx/change{1,2,3}; log to /tmp/adv/res_Cxx.log
P=$1
LOG=/tmp/adv/res_$P.log
: > $LOG
for k in 1 2 3; do
  CH=/tmp/adv/out_$P/change$k
  [ -f $CH/patch.diff ] || continue
  echo "=== $P change$k" >> $LOG
  /verif/tools/confirm_seed.sh /tmp/adv/wt_$P $CH >> $LOG 2>&1
  echo "--- check" >> $LOG
  (cd /verif && tools/seedtest.sh $CH/patch.diff $P) >> $LOG 2>&1
done
echo "=== DONE $P" >> $LOG
