#!/bin/bash
# usage: tools/seedtest.sh <patch.diff> <Cxx> [<Cyy> ...]
# Runs the given checks against a scratch worktree of /repo (HEAD + uncommitted hook edits) with the
# seeded change applied (VERIF_REPO mode: nothing under /repo, /verif/coq or /verif/evidence is touched).
# Prints one line per check: "<Cxx> exit=<rc> <VIOLATION lines>" ; removes the worktree afterwards.
set -u
PATCH=$(readlink -f "$1"); shift
NAME=seed_$$
WT=/tmp/$NAME
git -C /repo worktree add -q "$WT" HEAD || exit 2
git -C /repo diff > /tmp/$NAME.hooks.diff
if [ -s /tmp/$NAME.hooks.diff ]; then git -C "$WT" apply /tmp/$NAME.hooks.diff || echo "WARN: hook diff did not apply"; fi
if ! git -C "$WT" apply "$PATCH"; then
  # patches made inside a worktree of the same repo have the same paths; try with 3way
  git -C "$WT" apply --3way "$PATCH" || { echo "PATCH DOES NOT APPLY"; git -C /repo worktree remove --force "$WT"; exit 3; }
fi
cd /verif
for P in "$@"; do
  OUT=$(VERIF_REPO="$WT" ./check "$P" 2>/tmp/$NAME.$P.err); RC=$?
  echo "$P exit=$RC $(echo "$OUT" | grep -c '^VIOLATION') violation line(s)"
  echo "$OUT" | grep '^VIOLATION\|^KNOWN' | head -6
  for f in $(echo "$OUT" | grep '^VIOLATION' | sed 's/.*replay=\([^ ]*\).*/\1/' | head -2); do
    python3 - "$f" <<'PY'
import json,sys
v=json.load(open(sys.argv[1]))
print("   kind=%s stream=%s found=%s" % (v.get("kind"), v.get("stream"), v.get("found_failing_input")))
print("   case=%s" % json.dumps(v.get("case"))[:300])
print("   observed=%s" % str(v.get("observed"))[:200])
print("   expected=%s" % str(v.get("expected"))[:200])
PY
  done
done
git -C /repo worktree remove --force "$WT"
rm -rf "/verif/build/alt/$NAME" /tmp/$NAME.*
