#!/usr/bin/env python3
"""usage: tools/store_round.py <offset> Cxx [Cyy ...]  -- read /tmp/adv/res_Cxx.log (tools/process_seeds.sh), keep confirmed
seeds as seeded/Cxx-<k+offset> with the first verdict recorded."""
import re, subprocess, json, sys
off = int(sys.argv[1])
for p in sys.argv[2:]:
    log = open('/tmp/adv/res_%s.log' % p).read()
    for part in re.split(r"^=== ", log, flags=re.M):
        m = re.match(r"(C\d+) change(\d)", part)
        if not m:
            continue
        k = int(m.group(2)); sid = "%s-%d" % (p, k + off)
        tests = re.search(r"tests with change: (.*)", part)
        dw = re.search(r"demo with change: exit (\d+)", part); do = re.search(r"demo without change: exit (\d+)", part)
        ex = re.search(r"%s exit=(\d+) (\d+) violation" % p, part)
        kinds = re.findall(r"kind=(\S+) stream=(\S+) found=(\S+)", part)
        case = re.search(r"   case=(.*)", part)
        ok = tests and "0 failed" in tests.group(1) and dw and dw.group(1) != "0" and do and do.group(1) == "0"
        found = [x for x in kinds if x[2] == "True"]
        if "PATCH DOES NOT APPLY" in part:
            det = "patch does not apply to /repo HEAD"; res = "not run"
        elif ex and ex.group(1) == "1" and found:
            det = "./check %s: stream %s (%s)" % (p, found[0][1], found[0][0])
            res = "exit 1, %s VIOLATION line(s); first failing case: %s" % (ex.group(2), (case.group(1)[:300] if case else "see replay"))
        elif ex and ex.group(1) == "1":
            det = "./check %s: %s on stream %s, no-failing-input-found" % (p, kinds[0][0] if kinds else "?", kinds[0][1] if kinds else "?")
            res = "exit 1 without a concrete failing input at first; see follow-up"
        else:
            det = "NOT detected by ./check %s at the time (exit %s)" % (p, ex.group(1) if ex else "?"); res = "miss - see follow-up"
        print(sid, "confirmed" if ok else "UNCONFIRMED", det[:100])
        if ok:
            subprocess.run(["/verif/tools/keep_seed.py", "/tmp/adv/out_%s/change%d" % (p, k), sid, p, det, res], check=True, stdout=subprocess.DEVNULL)
            mp = '/verif/seeded/%s/meta.json' % sid; mm = json.load(open(mp))
            mm["checked_with"] = "tools/seedtest.sh seeded/%s/patch.diff %s" % (sid, p); json.dump(mm, open(mp, 'w'), indent=1)
