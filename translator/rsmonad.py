"""Shared helper of the third group of translators (tr_termination, tr_frontier, tr_similarity, tr_travmodels, ...):
compiles function bodies of the rsparse AST into Gallina over the outcome monad `res` of coq/Base/Res.v.

NOT a translator itself.  A translator subclasses `Monadic` and supplies the vocabulary of its domain:

    prim(e, env, pre)   -> (text, tag) | None     a PURE value for a domain-specific expression (numbers, lookups ...)
    comp_prim(e, env)   -> (text, tag) | None     a COMPUTATION (type `res T`) for a domain-specific expression
    err_class(e)        -> Gallina string term    the class of an `Err(<e>)`

The generic part handles
    pure values   names, `&` / `*`, `e?` (hoisted into a bind before the enclosing statement or branch), tuples,
                  `!`, `&&`, `||`, booleans, `Some` / `None`
    computations  `Ok(e)`, `Err(e)`, `return e`, `if`/`else`, `match` on an option / a tuple of options, blocks of
                  `let` statements (with tuple destructuring), an `if .. { <diverging block> }` statement followed by the
                  rest of the block, `e.map(|x| ..)` on a computation, and whatever `comp_prim` knows.

Evaluation order is preserved: binds hoisted out of an expression are emitted immediately before the statement (or inside
the branch) that contains it, in source order; nothing is hoisted across an `if` / `match` arm / closure boundary.
Everything FAILS CLOSED: an expression no rule covers raises TranslateError naming the file and the function.
"""
from rsparse import TranslateError


def v(name):
    return "v_" + name


class Monadic:
    def __init__(self, f, what):
        self.f, self.what = f, what
        self.n = 0

    # ---- to be supplied by the translator
    def prim(self, e, env, pre):
        return None

    def comp_prim(self, e, env):
        return None

    def err_class(self, e):
        self.err("Err(..) of an unknown error value %r" % (e if len(repr(e)) < 120 else repr(e)[:120],))

    # ---- plumbing
    def err(self, msg):
        raise TranslateError("%s: %s: %s" % (self.f.path, self.what, msg))

    def fresh(self, stem="r"):
        self.n += 1
        return "%s%d_" % (stem, self.n)

    @staticmethod
    def short(e):
        r = repr(e)
        return r if len(r) < 200 else r[:200] + ".."

    @staticmethod
    def binds(pre, body):
        out = body
        for name, comp in reversed(pre):
            out = "(do %s <- %s; %s)" % (name, comp, out)
        return out

    # ---- pure values
    def pure(self, e, env, pre):
        """(text, tag); binds needed before the value is available are appended to `pre`"""
        r = self.prim(e, env, pre)
        if r is not None:
            return r
        k = e[0]
        if k == "path" and len(e[1]) == 1 and e[1][0] in env:
            return env[e[1][0]]
        if k == "unary" and e[1] in ("&", "*", "&mut"):
            return self.pure(e[2], env, pre)
        if k == "try":
            t, tag = self.comp(e[1], env)
            if not (isinstance(tag, tuple) and tag[0] == "res"):
                self.err("`?` on something that is not a Result: %s" % self.short(e[1]))
            name = self.fresh()
            pre.append((name, t))
            return name, tag[1]
        if k == "bool":
            return ("true" if e[1] else "false"), "bool"
        if k == "unary" and e[1] == "!":
            t, tag = self.pure(e[2], env, pre)
            if tag != "bool":
                self.err("`!` on a %s" % (tag,))
            return "(negb %s)" % t, "bool"
        if k == "bin" and e[1] in ("&&", "||"):
            a, ta = self.pure(e[2], env, pre)
            pre2 = []
            b, tb = self.pure(e[3], env, pre2)
            if pre2:
                self.err("a fallible operand on the right of `%s` (short-circuit evaluation) is outside the translated subset" % e[1])
            if ta != "bool" or tb != "bool":
                self.err("`%s` on %s / %s" % (e[1], ta, tb))
            return "(%s %s %s)" % ("andb" if e[1] == "&&" else "orb", a, b), "bool"
        if k == "tuple":
            parts = [self.pure(x, env, pre) for x in e[1]]
            return "(%s)" % ", ".join(p[0] for p in parts), ("tuple", tuple(p[1] for p in parts))
        if k == "path" and e[1] == ["None"]:
            return "None", ("option", None)
        if k == "call" and e[1] == ("path", ["Some"]) and len(e[2]) == 1:
            t, tag = self.pure(e[2][0], env, pre)
            return "(Some %s)" % t, ("option", tag)
        if k == "block" and not e[1] and e[2] is not None:
            return self.pure(e[2], env, pre)
        self.err("unrecognised expression %s" % self.short(e))

    # ---- patterns of `let`
    def let_pattern(self, pat, tag, env):
        if pat[0] == "pid":
            env[pat[1]] = (v(pat[1]), tag)
            return v(pat[1])
        if pat[0] == "pwild":
            return "_"
        if pat[0] == "ptuple" and isinstance(tag, tuple) and tag[0] == "tuple" and len(tag[1]) == len(pat[1]):
            return "'(%s)" % ", ".join(self.let_pattern(p, t, env).lstrip("'") for p, t in zip(pat[1], tag[1]))
        self.err("unrecognised `let` pattern %r for a %s" % (pat, tag))

    # ---- computations
    def join(self, a, b):
        if a == b:
            return a
        if isinstance(a, tuple) and isinstance(b, tuple) and a[0] == b[0] and len(a) == 2:
            if a[1] is None:
                return b
            if b[1] is None:
                return a
            return (a[0], self.join(a[1], b[1]))
        self.err("branches of different kinds: %s / %s" % (a, b))

    def diverges(self, blk):
        """does the block end in `return ..` on every path"""
        if blk[0] == "return":
            return True
        if blk[0] == "block":
            if blk[2] is not None:
                return self.diverges(blk[2])
            return bool(blk[1]) and blk[1][-1][0] == "expr" and self.diverges(blk[1][-1][1])
        if blk[0] == "if":
            return blk[3] is not None and self.diverges(blk[2]) and self.diverges(blk[3])
        if blk[0] == "match":
            return all(self.diverges(a[2]) for a in blk[2])
        return False

    def comp(self, e, env):
        """(text of type `res T`, ('res', tag of T))"""
        r = self.comp_prim(e, env)
        if r is not None:
            return r
        k = e[0]
        if k == "return":
            if e[1] is None:
                self.err("`return;` is outside the translated subset")
            return self.comp(e[1], env)
        if k == "call" and e[1] == ("path", ["Ok"]) and len(e[2]) == 1:
            pre = []
            t, tag = self.pure(e[2][0], env, pre)
            return self.binds(pre, "(Ok %s)" % t), ("res", tag)
        if k == "call" and e[1] == ("path", ["Err"]) and len(e[2]) == 1:
            return "(Err %s)" % self.err_class(e[2][0]), ("res", None)
        if k == "if" and e[1][0] != "let":
            if e[3] is None:
                self.err("an `if` without `else` as a value")
            pre = []
            c, tc = self.pure(e[1], env, pre)
            if tc != "bool":
                self.err("condition is a %s" % (tc,))
            a, ta = self.comp(e[2], env)
            b, tb = self.comp(e[3], env)
            return self.binds(pre, "(if %s then %s else %s)" % (c, a, b)), self.join(ta, tb)
        if k == "match":
            return self.comp_match(e, env)
        if k == "block":
            return self.comp_block(e[1], e[2], env)
        if k == "mcall" and e[2] == "map" and len(e[3]) == 1 and e[3][0][0] == "closure" and len(e[3][0][1]) == 1:
            inner, tag = self.comp(e[1], env)
            env2 = dict(env)
            b = self.let_pattern(e[3][0][1][0], tag[1], env2)
            pre = []
            body, tb = self.pure(e[3][0][2], env2, pre)
            if pre:
                self.err("a fallible closure body in `.map` is outside the translated subset")
            return "(rmap (fun %s => %s) %s)" % (b, body, inner), ("res", tb)
        self.err("unrecognised computation %s" % self.short(e))

    def option_pattern(self, p, tag, env):
        """None | Some(x) | Some(_) | _ on an option value"""
        if p == ("ppath", ["None"]):
            return "None"
        if p[0] == "pwild":
            return "_"
        if p[0] == "pts" and p[1] == ["Some"] and len(p[2]) == 1:
            inner = tag[1] if isinstance(tag, tuple) and tag[0] == "option" else None
            q = p[2][0]
            if q[0] == "pref":
                q = q[1]
            if q[0] == "ptuple":
                return "Some %s" % self.let_pattern(q, inner, env).lstrip("'")
            return "Some %s" % self.let_pattern(q, inner, env)
        self.err("unrecognised option pattern %r" % (p,))

    def comp_match(self, e, env):
        pre = []
        if e[1][0] == "tuple":
            scr = [self.pure(x, env, pre) for x in e[1][1]]
        else:
            scr = [self.pure(e[1], env, pre)]
        for t, tag in scr:
            if not (isinstance(tag, tuple) and tag[0] == "option"):
                self.err("`match` on a %s (only options and tuples of options are translated here)" % (tag,))
        arms, rtag = [], ("res", None)
        for pat, guard, body in e[2]:
            if guard is not None:
                self.err("match guards are outside the translated subset")
            env2 = dict(env)
            if len(scr) == 1:
                heads = [self.option_pattern(pat, scr[0][1], env2)]
            elif pat[0] == "pwild":
                heads = ["_"] * len(scr)
            elif pat[0] == "ptuple" and len(pat[1]) == len(scr):
                heads = [self.option_pattern(p, s[1], env2) for p, s in zip(pat[1], scr)]
            else:
                self.err("unrecognised arm pattern %r" % (pat,))
            t, tag = self.comp(body, env2)
            rtag = self.join(rtag, tag)
            arms.append("| %s => %s" % (", ".join(heads), t))
        return self.binds(pre, "(match %s with %s end)" % (", ".join(s[0] for s in scr), " ".join(arms))), rtag

    def stmt(self, s, rest, tail, env):
        """hook: a translator may recognise a statement shape; return (text, tag) of the WHOLE remaining block or None"""
        return None

    def comp_block(self, stmts, tail, env):
        env = dict(env)
        if not stmts:
            if tail is None:
                self.err("a block without a value")
            return self.comp(tail, env)
        s, rest = stmts[0], stmts[1:]
        r = self.stmt(s, rest, tail, env)
        if r is not None:
            return r
        if s[0] == "let" and s[3] is not None and not s[4]:
            pre = []
            t, tag = self.pure(s[3], env, pre)
            b = self.let_pattern(s[1], tag, env)
            body, rtag = self.comp_block(rest, tail, env)
            if b == t:
                return self.binds(pre, body), rtag
            return self.binds(pre, "(let %s := %s in %s)" % (b, t, body)), rtag
        if s[0] == "expr" and s[1][0] == "if" and s[1][3] is None and s[1][1][0] != "let" and self.diverges(s[1][2]):
            pre = []
            c, tc = self.pure(s[1][1], env, pre)
            if tc != "bool":
                self.err("condition is a %s" % (tc,))
            a, ta = self.comp(s[1][2], env)
            b, tb = self.comp_block(rest, tail, env)
            return self.binds(pre, "(if %s then %s else %s)" % (c, a, b)), self.join(ta, tb)
        if s[0] == "expr" and not rest and tail is None and self.diverges(s[1]):
            return self.comp(s[1], env)
        self.err("unrecognised statement %s" % self.short(s))
