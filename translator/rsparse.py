"""Shared helper of the second group of translators (tr_costrates, tr_soc, tr_haversine, tr_sinkformat,
tr_statefeature): a small, strict reader for the subset of Rust those translators accept.

NOT a translator itself (the dispatcher only loads tr_*.py).  It provides
  * strip_comments       string-literal aware, keeps every newline (so line numbers stay those of the source)
  * tokenize             identifiers, numbers, strings, chars, lifetimes, punctuation; every token knows its line
  * drop_cfg             removes items / statements guarded by `#[cfg(compass_verif)]` (the add-only verification
                         hooks) and `#[cfg(test)]`; all other attributes are removed as attributes only
  * File                 one source file: find an enum, an inherent `impl T { fn f }`, a free `fn f`, a `const`
  * Parser               expressions / blocks / patterns -> a small tuple AST (documented at `Parser`)

Everything FAILS CLOSED: text outside the subset raises TranslateError("<path>:<line>: ...").  The readers are
deliberately insensitive to white space, comments, trailing commas and the names of local variables (the
translators alpha-rename locals through their environments), and deliberately sensitive to everything else.
"""
import hashlib
import os
import re


class TranslateError(Exception):
    pass


# ----------------------------------------------------------------------------------------------- comments

_CHAR_RE = re.compile(r"'(?:\\(?:[nrt\\0'\"]|x[0-9a-fA-F]{2}|u\{[0-9a-fA-F]{1,6}\})|[^\\'\n])'")


def strip_comments(src):
    """remove // and (nested) /* */ comments; string / char literals are copied verbatim; newlines are kept"""
    out, i, n = [], 0, len(src)
    while i < n:
        c = src[i]
        if src.startswith("//", i):
            while i < n and src[i] != "\n":
                i += 1
        elif src.startswith("/*", i):
            depth, i = 1, i + 2
            while i < n and depth:
                if src.startswith("/*", i):
                    depth, i = depth + 1, i + 2
                elif src.startswith("*/", i):
                    depth, i = depth - 1, i + 2
                else:
                    if src[i] == "\n":
                        out.append("\n")
                    i += 1
            if depth:
                raise TranslateError("unterminated block comment")
        elif c == '"':
            j = i + 1
            while j < n and src[j] != '"':
                j += 2 if src[j] == "\\" else 1
            if j >= n:
                raise TranslateError("unterminated string literal")
            out.append(src[i:j + 1])
            i = j + 1
        elif c == "r" and re.match(r'r#*"', src[i:i + 8]) and (i == 0 or not (src[i - 1].isalnum() or src[i - 1] == "_")):
            m = re.match(r'r(#*)"', src[i:])
            close = '"' + m.group(1)
            j = src.find(close, i + len(m.group(0)))
            if j < 0:
                raise TranslateError("unterminated raw string literal")
            out.append(src[i:j + len(close)])
            i = j + len(close)
        elif c == "'":
            m = _CHAR_RE.match(src, i)
            if m:
                out.append(m.group(0))
                i = m.end()
            else:
                out.append(c)   # a lifetime
                i += 1
        else:
            out.append(c)
            i += 1
    return "".join(out)


# ----------------------------------------------------------------------------------------------- tokens

class Tok:
    __slots__ = ("kind", "text", "line", "val")

    def __init__(self, kind, text, line, val=None):
        self.kind, self.text, self.line, self.val = kind, text, line, val

    def __repr__(self):
        return "%s:%r@%d" % (self.kind, self.text, self.line)


_PUNCT = ["..=", "<<=", ">>=", "...", "::", "->", "=>", "==", "!=", "<=", ">=", "&&", "||", "+=", "-=", "*=", "/=", "%=",
          "^=", "&=", "|=", "<<", ">>", ".."]
_NUM_RE = re.compile(r"(?:0x[0-9a-fA-F_]+|0b[01_]+|0o[0-7_]+|\d[\d_]*(?:\.\d[\d_]*)?(?:[eE][+-]?\d+)?)(?:_?(?:f32|f64|u8|u16|u32|u64|u128|usize|i8|i16|i32|i64|i128|isize))?")
_ID_RE = re.compile(r"(?:r#)?[A-Za-z_][A-Za-z0-9_]*")
_ESC = {"n": "\n", "r": "\r", "t": "\t", "\\": "\\", "0": "\0", "'": "'", '"': '"'}


def _unescape(body, where):
    out, i = [], 0
    while i < len(body):
        c = body[i]
        if c != "\\":
            out.append(c)
            i += 1
            continue
        d = body[i + 1]
        if d in _ESC:
            out.append(_ESC[d])
            i += 2
        elif d == "x":
            out.append(chr(int(body[i + 2:i + 4], 16)))
            i += 4
        elif d == "u":
            j = body.index("}", i)
            out.append(chr(int(body[i + 3:j], 16)))
            i = j + 1
        elif d == "\n":       # line continuation: skip the newline and leading white space
            i += 2
            while i < len(body) and body[i] in " \t\n\r":
                i += 1
        else:
            raise TranslateError("%s: unknown escape \\%s" % (where, d))
    return "".join(out)


def tokenize(text, path="<src>"):
    toks, i, n, line = [], 0, len(text), 1
    while i < n:
        c = text[i]
        if c == "\n":
            line += 1
            i += 1
        elif c in " \t\r":
            i += 1
        elif c == '"':
            j = i + 1
            while text[j] != '"':
                j += 2 if text[j] == "\\" else 1
            raw = text[i:j + 1]
            toks.append(Tok("str", raw, line, _unescape(raw[1:-1], "%s:%d" % (path, line))))
            line += raw.count("\n")
            i = j + 1
        elif c == "r" and re.match(r'r#*"', text[i:i + 8]):
            m = re.match(r'r(#*)"', text[i:])
            close = '"' + m.group(1)
            j = text.find(close, i + len(m.group(0)))
            raw = text[i:j + len(close)]
            toks.append(Tok("str", raw, line, text[i + len(m.group(0)):j]))
            line += raw.count("\n")
            i = j + len(close)
        elif c == "'":
            m = _CHAR_RE.match(text, i)
            if m:
                toks.append(Tok("char", m.group(0), line, _unescape(m.group(0)[1:-1], "%s:%d" % (path, line))))
                i = m.end()
            else:
                m = _ID_RE.match(text, i + 1)
                if not m:
                    raise TranslateError("%s:%d: stray quote" % (path, line))
                toks.append(Tok("life", text[i:m.end()], line))
                i = m.end()
        elif c.isdigit():
            m = _NUM_RE.match(text, i)
            # `1..=2` and `x.0.1`: do not swallow a range operator or a method call after an integer
            s = m.group(0)
            mm = re.match(r"\d[\d_]*", s)
            if text.startswith("..", i + len(mm.group(0))) or re.match(r"\.[A-Za-z_]", text[i + len(mm.group(0)):i + len(mm.group(0)) + 2]):
                s = mm.group(0)
            toks.append(Tok("num", s, line))
            i += len(s)
        elif c.isalpha() or c == "_":
            m = _ID_RE.match(text, i)
            toks.append(Tok("id", m.group(0), line))
            i = m.end()
        else:
            for p in _PUNCT:
                if text.startswith(p, i):
                    toks.append(Tok("p", p, line))
                    i += len(p)
                    break
            else:
                if c in "+-*/%^!&|=<>@.,;:#$?~()[]{}":
                    toks.append(Tok("p", c, line))
                    i += 1
                else:
                    raise TranslateError("%s:%d: unexpected character %r" % (path, line, c))
    return toks


_OPEN = {"(": ")", "[": "]", "{": "}"}
_CLOSE = {")", "]", "}"}


def _skip_group(toks, i, path):
    """toks[i] opens a group: index just after its matching closer"""
    depth, j = 0, i
    while j < len(toks):
        t = toks[j]
        if t.kind == "p" and t.text in _OPEN:
            depth += 1
        elif t.kind == "p" and t.text in _CLOSE:
            depth -= 1
            if depth == 0:
                return j + 1
        j += 1
    raise TranslateError("%s:%d: unbalanced %s" % (path, toks[i].line, toks[i].text))


def _skip_item(toks, i, path):
    """index just after the item / statement that starts at toks[i]"""
    first = toks[i].text if i < len(toks) else ""
    to_semicolon = first in ("let", "use", "const", "static", "type")
    j = i
    while j < len(toks):
        t = toks[j]
        if t.kind == "p" and t.text in _OPEN:
            was_brace = t.text == "{"
            j = _skip_group(toks, j, path)
            if was_brace and not to_semicolon:
                if j < len(toks) and toks[j].kind == "p" and toks[j].text == ";":
                    j += 1
                return j
            continue
        if t.kind == "p" and t.text == ";":
            return j + 1
        if t.kind == "p" and t.text in _CLOSE:
            return j     # end of the enclosing block: the guarded thing was its tail expression
        j += 1
    return j


def drop_cfg(toks, path="<src>"):
    """remove `#[cfg(compass_verif)]` / `#[cfg(test)]` things together with what they guard, and every other
    outer attribute `#[...]` / inner attribute `#![...]` as an attribute only (their content never matters to
    the translators, which read `enum` / `fn` / `const` items; serde renames are outside their scope)"""
    out, i = [], 0
    while i < len(toks):
        t = toks[i]
        if t.kind == "p" and t.text == "#" and i + 1 < len(toks) and toks[i + 1].text in ("[", "!"):
            k = i + 1 + (1 if toks[i + 1].text == "!" else 0)
            if toks[k].text != "[":
                raise TranslateError("%s:%d: malformed attribute" % (path, t.line))
            end = _skip_group(toks, k, path)
            inner = "".join(x.text for x in toks[k + 1:end - 1])
            if inner in ("cfg(compass_verif)", "cfg(test)"):
                # further attributes on the same item belong to it
                j = end
                while j + 1 < len(toks) and toks[j].text == "#" and toks[j + 1].text == "[":
                    j = _skip_group(toks, j + 1, path)
                i = _skip_item(toks, j, path)
            elif inner.startswith("cfg(") or inner.startswith("cfg_attr("):
                raise TranslateError("%s:%d: conditional compilation #[%s] is outside the translated subset" % (path, t.line, inner))
            else:
                i = end
            continue
        out.append(t)
        i += 1
    return out


# ----------------------------------------------------------------------------------------------- parser

class Parser:
    """Recursive-descent reader for expressions, blocks and patterns.  AST nodes are tuples:

      expressions  ('num', text) ('str', s) ('char', c) ('bool', b)
                   ('path', [seg, ...])                 x, Cost::ZERO, DistanceUnit::Meters (turbofish dropped)
                   ('field', e, name)                   e.name, e.0
                   ('mcall', e, name, [args])           e.name(args)        (`::<..>` dropped)
                   ('call', e, [args])                  f(args), Cost::new(x), Ok(x)
                   ('macro', name, [token texts])       format!(..), json![..], writeln!(..): arguments unparsed
                   ('unary', op, e)                     op in - ! * & &mut
                   ('bin', op, l, r)                    + - * / % == != < <= > >= && ||
                   ('cast', e, type_text)               e as T
                   ('try', e)                           e?
                   ('closure', [pat], body)             |p, q| body
                   ('block', [stmt], tail|None)
                   ('if', cond, block, else|None)       else is a block or another if;  cond may be ('let', pat, e)
                   ('match', e, [(pat, guard|None, e)])
                   ('struct', [seg], [(field, e)])      T { a: e, b }  (not in condition / scrutinee position)
                   ('range', lo|None, hi|None, inclusive)
                   ('tuple', [e]) ('array', [e]) ('index', e, i) ('return', e|None)
      statements   ('let', pat, type_text|None, e|None, mutable) ('expr', e) ('assign', lhs, op, rhs) ('use', [seg], alias)
                   ('for', pat, iter, block)
      patterns     ('pwild',) ('pid', name) ('plit', e) ('ptuple', [p]) ('ppath', [seg])
                   ('pts', [seg], [p])                  T::V(p, ..)
                   ('pstruct', [seg], [(field, p)], has_rest)
                   ('pref', p) ('por', [p]) ('prange', lo, hi, inclusive)
    """

    def __init__(self, toks, path, i=0, end=None):
        self.t, self.path, self.i = toks, path, i
        self.end = len(toks) if end is None else end

    # -- plumbing
    def peek(self, k=0):
        j = self.i + k
        return self.t[j] if j < self.end else Tok("eof", "", self.t[self.end - 1].line if self.end else 0)

    def line(self):
        return self.peek().line

    def err(self, msg, tok=None):
        raise TranslateError("%s:%d: %s" % (self.path, (tok or self.peek()).line, msg))

    def at(self, text, k=0):
        t = self.peek(k)
        return t.kind in ("p", "id") and t.text == text

    def eat(self, text):
        if self.at(text):
            self.i += 1
            return True
        return False

    def expect(self, text):
        if not self.eat(text):
            self.err("expected `%s`, found `%s`" % (text, self.peek().text))

    def ident(self):
        t = self.peek()
        if t.kind != "id":
            self.err("expected an identifier, found `%s`" % t.text)
        self.i += 1
        return t.text[2:] if t.text.startswith("r#") else t.text

    # -- types are kept as normalised text (no white space)
    def type_text(self, stop=(",", ")", "=", ";", "{", ">", "where", "]", "|")):
        out, depth = [], 0
        while True:
            t = self.peek()
            if t.kind == "eof":
                break
            if depth == 0 and t.kind in ("p", "id") and t.text in stop:
                break
            if t.text in ("<", "(", "["):
                depth += 1
            elif t.text in (">", ")", "]"):
                depth -= 1
            elif t.text == ">>":
                depth -= 2
            elif t.text == "->" and depth == 0:
                break
            out.append(t.text + (" " if t.text in ("dyn", "impl", "mut") else ""))
            self.i += 1
        if not out:
            self.err("expected a type")
        return "".join(out)

    def generic_args_skip(self):
        """at `<`: skip balanced angle brackets (turbofish / generic arguments)"""
        depth = 0
        while True:
            t = self.peek()
            if t.kind == "eof":
                self.err("unbalanced `<`")
            if t.text == "<":
                depth += 1
            elif t.text == ">":
                depth -= 1
            elif t.text == ">>":
                depth -= 2
            self.i += 1
            if depth <= 0:
                return

    # -- paths
    def path_segs(self):
        segs = [self.ident()]
        while self.at("::"):
            if self.at("<", 1):
                self.i += 1
                self.generic_args_skip()
                continue
            if self.peek(1).kind != "id":
                break
            self.i += 1
            segs.append(self.ident())
        return segs

    # -- patterns
    def pattern(self):
        alts = [self.pattern1()]
        while self.at("|") and not self._closure_bar:
            self.i += 1
            alts.append(self.pattern1())
        return alts[0] if len(alts) == 1 else ("por", alts)

    _closure_bar = False

    def pattern1(self):
        t = self.peek()
        if self.eat("_"):
            return ("pwild",)
        if self.eat("&"):
            self.eat("mut")
            return ("pref", self.pattern1())
        if self.eat("("):
            ps = []
            while not self.at(")"):
                ps.append(self.pattern())
                if not self.eat(","):
                    break
            self.expect(")")
            return ps[0] if len(ps) == 1 and self.t[self.i - 2].text != "," else ("ptuple", ps)
        if t.kind in ("num", "str", "char") or self.at("-"):
            lo = self.literal()
            if self.at("..=") or self.at(".."):
                incl = self.peek().text == "..="
                self.i += 1
                return ("prange", lo, self.literal(), incl)
            return ("plit", lo)
        if self.at("true") or self.at("false"):
            self.i += 1
            return ("plit", ("bool", t.text == "true"))
        if self.at("ref") or self.at("mut"):
            self.i += 1
            if self.at("mut"):
                self.i += 1
            return ("pid", self.ident())
        if t.kind == "id":
            segs = self.path_segs()
            if self.at("("):
                self.i += 1
                ps = []
                while not self.at(")"):
                    ps.append(self.pattern())
                    if not self.eat(","):
                        break
                self.expect(")")
                return ("pts", segs, ps)
            if self.at("{"):
                self.i += 1
                fs, rest = [], False
                while not self.at("}"):
                    if self.eat(".."):
                        rest = True
                        break
                    self.eat("ref")
                    self.eat("mut")
                    f = self.ident()
                    p = self.pattern() if self.eat(":") else ("pid", f)
                    fs.append((f, p))
                    if not self.eat(","):
                        break
                self.expect("}")
                return ("pstruct", segs, fs, rest)
            if len(segs) == 1 and (segs[0][0].islower() or segs[0][0] == "_"):
                if self.eat("@"):
                    self.err("`@` patterns are outside the translated subset")
                return ("pid", segs[0])
            return ("ppath", segs)
        self.err("unrecognised pattern at `%s`" % t.text)

    def literal(self):
        neg = self.eat("-")
        t = self.peek()
        if t.kind == "num":
            self.i += 1
            return ("num", ("-" if neg else "") + t.text)
        if neg:
            self.err("expected a number after `-`")
        if t.kind == "str":
            self.i += 1
            return ("str", t.val)
        if t.kind == "char":
            self.i += 1
            return ("char", t.val)
        self.err("expected a literal, found `%s`" % t.text)

    # -- expressions (precedence climbing)
    _BIN = [("||",), ("&&",), ("==", "!=", "<", ">", "<=", ">="), ("|",), ("^",), ("&",), ("<<", ">>"), ("+", "-"), ("*", "/", "%")]

    def expr(self, no_struct=False):
        return self.range_expr(no_struct)

    def range_expr(self, ns):
        if self.at("..") or self.at("..="):
            incl = self.peek().text == "..="
            self.i += 1
            hi = None if self._range_end() else self.binary(0, ns)
            return ("range", None, hi, incl)
        lo = self.binary(0, ns)
        if self.at("..") or self.at("..="):
            incl = self.peek().text == "..="
            self.i += 1
            hi = None if self._range_end() else self.binary(0, ns)
            return ("range", lo, hi, incl)
        return lo

    def _range_end(self):
        t = self.peek()
        return t.kind == "eof" or (t.kind == "p" and t.text in (")", "]", "}", ",", ";", "=>"))

    def binary(self, level, ns):
        if level == len(self._BIN):
            return self.cast(ns)
        left = self.binary(level + 1, ns)
        while True:
            t = self.peek()
            if t.kind == "p" and t.text in self._BIN[level]:
                if t.text == "|" and self._closure_bar:
                    break
                self.i += 1
                right = self.binary(level + 1, ns)
                left = ("bin", t.text, left, right)
            else:
                break
        return left

    def cast(self, ns):
        e = self.unary(ns)
        while self.at("as"):
            self.i += 1
            e = ("cast", e, self.type_text(stop=(",", ")", ";", "{", "}", "]", "=>", "+", "-", "*", "/", "%", "==", "!=", "<=", ">=",
                                                   "&&", "||", "?", ".", "as", "..", "..=")))
        return e

    def unary(self, ns):
        t = self.peek()
        if t.kind == "p" and t.text in ("-", "!", "*"):
            self.i += 1
            return ("unary", t.text, self.unary(ns))
        if t.kind == "p" and t.text in ("&", "&&"):
            self.i += 1
            m = self.eat("mut")
            e = ("unary", "&mut" if m else "&", self.unary(ns))
            return ("unary", "&", e) if t.text == "&&" else e
        return self.postfix(ns)

    def args(self, close=")"):
        out = []
        while not self.at(close):
            out.append(self.expr())
            if not self.eat(","):
                break
        self.expect(close)
        return out

    def postfix(self, ns):
        e = self.primary(ns)
        while True:
            if self.at("?"):
                self.i += 1
                e = ("try", e)
            elif self.at("("):
                self.i += 1
                e = ("call", e, self.args())
            elif self.at("["):
                self.i += 1
                ix = self.expr()
                self.expect("]")
                e = ("index", e, ix)
            elif self.at("."):
                t = self.peek(1)
                if t.kind == "num":
                    self.i += 2
                    for part in t.text.split("."):
                        if not part.isdigit():
                            self.err("unrecognised tuple field `%s`" % t.text, t)
                        e = ("field", e, part)
                elif t.kind == "id":
                    self.i += 1
                    name = self.ident()
                    if name == "await":
                        self.err("`.await` is outside the translated subset")
                    if self.at("::") and self.at("<", 1):
                        self.i += 1
                        self.generic_args_skip()
                    if self.at("("):
                        self.i += 1
                        e = ("mcall", e, name, self.args())
                    else:
                        e = ("field", e, name)
                else:
                    self.err("unexpected `%s` after `.`" % t.text, t)
            else:
                return e

    def block(self):
        self.expect("{")
        stmts, tail = [], None
        while not self.at("}"):
            if self.eat(";"):
                continue
            if self.at("let"):
                self.i += 1
                pat = self._let_pattern()
                ty = None
                if self.eat(":"):
                    ty = self.type_text(stop=("=", ";"))
                val = None
                if self.eat("="):
                    val = self.expr()
                    if self.at("else"):
                        self.err("`let .. else` is outside the translated subset")
                self.expect(";")
                stmts.append(("let", pat[0], ty, val, pat[1]))
                continue
            if self.at("for"):
                self.i += 1
                pat = self.pattern()
                self.expect("in")
                it = self.expr(no_struct=True)
                body = self.block()
                stmts.append(("for", pat, it, body))
                continue
            if self.at("use"):
                # `use Path as Alias;` / `use Path;` inside a body: recorded as a statement, the translators resolve the alias
                self.i += 1
                segs = self.path_segs()
                alias = segs[-1]
                if self.eat("as"):
                    alias = self.ident()
                self.expect(";")
                stmts.append(("use", segs, alias))
                continue
            if self.at("while") or self.at("loop") or self.at("unsafe") or self.at("fn") \
                    or self.at("struct") or self.at("enum") or self.at("impl") or self.at("const") or self.at("static"):
                self.err("`%s` inside a function body is outside the translated subset" % self.peek().text)
            e = self.expr()
            t = self.peek()
            if t.kind == "p" and t.text in ("=", "+=", "-=", "*=", "/=", "%="):
                self.i += 1
                rhs = self.expr()
                self.expect(";")
                stmts.append(("assign", e, t.text, rhs))
                continue
            if self.eat(";"):
                stmts.append(("expr", e))
                continue
            if self.at("}"):
                tail = e
                break
            if e[0] in ("if", "match", "block"):     # block-like expression statement without `;`
                stmts.append(("expr", e))
                continue
            self.err("expected `;` or `}` after an expression, found `%s`" % t.text)
        self.expect("}")
        return ("block", stmts, tail)

    def _let_pattern(self):
        mutable = False
        if self.at("mut") and self.peek(1).kind == "id" and self.peek(2).text in ("=", ":", ";"):
            self.i += 1
            mutable = True
        return self.pattern(), mutable

    def if_expr(self):
        self.expect("if")
        if self.at("let"):
            self.i += 1
            pat = self.pattern()
            self.expect("=")
            cond = ("let", pat, self.expr(no_struct=True))
        else:
            cond = self.expr(no_struct=True)
        then = self.block()
        els = None
        if self.eat("else"):
            els = self.if_expr() if self.at("if") else self.block()
        return ("if", cond, then, els)

    def primary(self, ns):
        t = self.peek()
        if t.kind == "num":
            self.i += 1
            return ("num", t.text)
        if t.kind == "str":
            self.i += 1
            return ("str", t.val)
        if t.kind == "char":
            self.i += 1
            return ("char", t.val)
        if self.at("true") or self.at("false"):
            self.i += 1
            return ("bool", t.text == "true")
        if self.at("("):
            self.i += 1
            if self.eat(")"):
                return ("tuple", [])
            first = self.expr()
            if self.eat(")"):
                return first
            items = [first]
            while self.eat(","):
                if self.at(")"):
                    break
                items.append(self.expr())
            self.expect(")")
            return ("tuple", items)
        if self.at("["):
            self.i += 1
            items = self.args("]")
            return ("array", items)
        if self.at("{"):
            return self.block()
        if self.at("if"):
            return self.if_expr()
        if self.at("match"):
            self.i += 1
            scrut = self.expr(no_struct=True)
            self.expect("{")
            arms = []
            while not self.at("}"):
                self.eat("|")
                pat = self.pattern()
                guard = None
                if self.eat("if"):
                    guard = self.expr(no_struct=True)
                self.expect("=>")
                body = self.expr()
                arms.append((pat, guard, body))
                if not self.eat(","):
                    if body[0] in ("block", "if", "match") and not self.at("}"):
                        continue
                    break
            self.expect("}")
            return ("match", scrut, arms)
        if self.at("return"):
            self.i += 1
            if self.peek().kind == "p" and self.peek().text in (";", "}", ",", ")"):
                return ("return", None)
            return ("return", self.expr())
        if self.at("|") or self.at("||") or (self.at("move") and self.peek(1).text in ("|", "||")):
            self.eat("move")
            pats = []
            if not self.eat("||"):
                self.expect("|")
                self._closure_bar = True       # `|` closes the parameter list, it is not an or-pattern
                try:
                    while not self.at("|"):
                        p = self.pattern()
                        if self.eat(":"):
                            self.type_text(stop=(",", "|"))
                        pats.append(p)
                        if not self.eat(","):
                            break
                finally:
                    self._closure_bar = False
                self.expect("|")
            if self.at("->"):
                self.err("closures with a declared return type are outside the translated subset")
            return ("closure", pats, self.expr())
        if t.kind == "id":
            if t.text in ("while", "loop", "unsafe", "async", "break", "continue", "let", "for"):
                self.err("`%s` is outside the translated subset" % t.text)
            segs = self.path_segs()
            if self.at("!") and not self.at("!=") and self.peek(1).kind == "p" and self.peek(1).text in ("(", "[", "{"):
                self.i += 1
                start = self.i
                endi = _skip_group(self.t, self.i, self.path)
                self.i = endi
                return ("macro", "::".join(segs), [x for x in self.t[start + 1:endi - 1]])
            if self.at("{") and not ns and (segs[-1][0].isupper()):
                # struct literal
                self.i += 1
                fs = []
                while not self.at("}"):
                    if self.at(".."):
                        self.err("struct update syntax is outside the translated subset")
                    f = self.ident()
                    v = self.expr() if self.eat(":") else ("path", [f])
                    fs.append((f, v))
                    if not self.eat(","):
                        break
                self.expect("}")
                return ("struct", segs, fs)
            return ("path", segs)
        self.err("unexpected `%s` in an expression" % t.text)


# ----------------------------------------------------------------------------------------------- files and items

class File:
    """one Rust source file of the repository under translation"""

    def __init__(self, repo, rel):
        self.rel = rel
        self.path = os.path.join(repo, rel)
        if not os.path.exists(self.path):
            raise TranslateError("%s: file not found" % self.path)
        self.raw = open(self.path, "rb").read()
        try:
            text = strip_comments(self.raw.decode("utf-8"))
        except TranslateError as e:
            raise TranslateError("%s: %s" % (self.path, e))
        self.toks = drop_cfg(tokenize(text, self.path), self.path)

    def sha(self):
        return hashlib.sha256(self.raw).hexdigest()

    def err(self, line, msg):
        raise TranslateError("%s:%d: %s" % (self.path, line, msg))

    def _top_level(self, lo=0, hi=None):
        """indices of tokens at brace depth 0 within [lo, hi)"""
        hi = len(self.toks) if hi is None else hi
        depth, i = 0, lo
        while i < hi:
            t = self.toks[i]
            if t.kind == "p" and t.text in _OPEN:
                if depth == 0:
                    yield i
                depth += 1
            elif t.kind == "p" and t.text in _CLOSE:
                depth -= 1
            elif depth == 0:
                yield i
            i += 1

    def _one(self, found, what):
        if len(found) != 1:
            raise TranslateError("%s: expected exactly one %s, found %d" % (self.path, what, len(found)))
        return found[0]

    # -- enum Name { Variant, Variant { f: T, .. }, Variant(T, ..) }
    def enum(self, name):
        t = self.toks
        hits = [i for i in self._top_level() if t[i].text == "enum" and i + 2 < len(t) and t[i + 1].text == name and t[i + 2].text == "{"]
        i = self._one(hits, "`enum %s {`" % name)
        end = _skip_group(t, i + 2, self.path)
        p = Parser(t, self.path, i + 3, end - 1)
        variants = []
        while p.peek().kind != "eof":
            vname = p.ident()
            if p.at("{"):
                p.i += 1
                fields = []
                while not p.at("}"):
                    p.eat("pub")
                    f = p.ident()
                    p.expect(":")
                    fields.append((f, p.type_text(stop=(",", "}"))))
                    if not p.eat(","):
                        break
                p.expect("}")
                variants.append((vname, "struct", fields))
            elif p.at("("):
                p.i += 1
                fields = []
                while not p.at(")"):
                    p.eat("pub")
                    fields.append((None, p.type_text(stop=(",", ")"))))
                    if not p.eat(","):
                        break
                p.expect(")")
                variants.append((vname, "tuple", fields))
            else:
                if p.at("="):
                    p.err("explicit discriminants are outside the translated subset")
                variants.append((vname, "unit", []))
            if not p.eat(","):
                break
        if p.peek().kind != "eof":
            p.err("unrecognised text in enum %s at `%s`" % (name, p.peek().text))
        if not variants or len({v[0] for v in variants}) != len(variants):
            self.err(t[i].line, "enum %s: no or duplicate variants" % name)
        return variants, t[i].line

    # -- struct Name { field: T, .. }   /   struct Name(T, ..);
    def struct(self, name):
        """([(field | None, type text)], line)"""
        t = self.toks
        hits = [i for i in self._top_level() if t[i].text == "struct" and i + 2 < len(t) and t[i + 1].text == name and t[i + 2].text in ("{", "(")]
        i = self._one(hits, "`struct %s`" % name)
        end = _skip_group(t, i + 2, self.path)
        p = Parser(t, self.path, i + 3, end - 1)
        named = t[i + 2].text == "{"
        fields = []
        while p.peek().kind != "eof":
            p.eat("pub")
            if p.at("("):            # pub(crate)
                p.i = _skip_group(t, p.i, self.path)
            if named:
                f = p.ident()
                p.expect(":")
                fields.append((f, p.type_text(stop=(",",))))
            else:
                fields.append((None, p.type_text(stop=(",",))))
            if not p.eat(","):
                break
        if p.peek().kind != "eof":
            p.err("unrecognised text in struct %s at `%s`" % (name, p.peek().text))
        return fields, t[i].line

    def trait_range(self, name):
        """token range of the body of `trait <name> [: bounds] {`"""
        t = self.toks
        hits = []
        for i in self._top_level():
            if t[i].text == "trait" and i + 1 < len(t) and t[i + 1].text == name:
                j = i + 2
                while j < len(t) and t[j].text != "{":
                    j += 1
                hits.append((j + 1, _skip_group(t, j, self.path) - 1))
        return self._one(hits, "`trait %s {`" % name)

    # -- const NAME: T = expr;
    def const(self, name, lo=0, hi=None):
        t = self.toks
        hits = [i for i in range(lo, len(t) if hi is None else hi)
                if t[i].text == "const" and i + 2 < len(t) and t[i + 1].text == name and t[i + 2].text == ":"]
        i = self._one(hits, "`const %s`" % name)
        p = Parser(t, self.path, i + 3)
        ty = p.type_text(stop=("=",))
        p.expect("=")
        e = p.expr()
        p.expect(";")
        return ty, e, t[i].line

    # -- functions
    def impl_range(self, tyname, trait=None):
        """token range of the body of `impl <tyname> {` (or `impl <trait> for <tyname> {`); exactly one"""
        t = self.toks
        hits = []
        for i in self._top_level():
            if t[i].text != "impl":
                continue
            j = i + 1
            if t[j].text == "<":
                p = Parser(t, self.path, j)
                p.generic_args_skip()
                j = p.i
            hdr = []
            while j < len(t) and t[j].text != "{":
                hdr.append(t[j].text)
                j += 1
            h = " ".join(hdr)
            want = ("%s for %s" % (trait, tyname)) if trait else tyname
            if h == want or h.startswith(want + " where") or (h.startswith(want + " <") and " for " not in h[len(want):]):
                hits.append((j + 1, _skip_group(t, j, self.path) - 1))
        return self._one(hits, "`impl %s {`" % (("%s for %s" % (trait, tyname)) if trait else tyname))

    def impl_range_generic(self, tyname, trait):
        """like impl_range for a generic header: `impl<..> <trait><..> for <tyname><..> [where ..] {`; exactly one"""
        t = self.toks
        hits = []
        for i in self._top_level():
            if t[i].text != "impl":
                continue
            j = i + 1
            if t[j].text == "<":
                p = Parser(t, self.path, j)
                p.generic_args_skip()
                j = p.i
            hdr = []
            while j < len(t) and t[j].text != "{":
                hdr.append(t[j].text)
                j += 1
            if hdr and hdr[0] == trait and any(hdr[k] == "for" and k + 1 < len(hdr) and hdr[k + 1] == tyname for k in range(len(hdr))):
                hits.append((j + 1, _skip_group(t, j, self.path) - 1))
        return self._one(hits, "`impl %s<..> for %s<..> {`" % (trait, tyname))

    def fn(self, name, within=None):
        """(params, return type text | None, body AST, line); params = [(name | 'self', type text)]
        `within` = token range (from impl_range) or None for a free function at the top level of the file"""
        t = self.toks
        if within is None:
            idx = list(self._top_level())
        else:
            idx = list(self._top_level(within[0], within[1]))
        hits = [i for i in idx if t[i].text == "fn" and i + 1 < len(t) and t[i + 1].text == name]
        i = self._one(hits, "`fn %s`" % name)
        p = Parser(t, self.path, i + 2)
        if p.at("<"):
            p.generic_args_skip()
        p.expect("(")
        params = []
        while not p.at(")"):
            if p.at("&") and (p.at("self", 1) or (p.at("mut", 1) and p.at("self", 2)) or (p.peek(1).kind == "life")):
                txt = []
                while not (p.at(",") or p.at(")")):
                    txt.append(p.peek().text)
                    p.i += 1
                params.append(("self", "".join(txt)))
            elif p.at("self") or (p.at("mut") and p.at("self", 1)):
                p.eat("mut")
                p.i += 1
                params.append(("self", "self"))
            else:
                p.eat("mut")
                pn = p.ident()
                p.expect(":")
                params.append((pn, p.type_text(stop=(",", ")"))))
            if not p.eat(","):
                break
        p.expect(")")
        ret = None
        if p.eat("->"):
            ret = p.type_text(stop=("{", "where"))
        if p.at("where"):
            p.err("`where` clauses are outside the translated subset")
        body = p.block()
        return params, ret, body, t[i].line


# ----------------------------------------------------------------------------------------------- small shared helpers

def float_literal(text, where, max_mantissa=2 ** 53, max_exp=18):
    """decimal float (or integer) literal -> (mantissa, exponent), value = mantissa * 10^exponent, digits as written"""
    m = re.fullmatch(r"(-?)(\d[\d_]*)(?:\.(\d[\d_]*)?)?(?:[eE]([+-]?\d+))?(?:_?(?:f64|f32))?", text.strip())
    if not m:
        raise TranslateError("%s: unrecognised float literal %r" % (where, text))
    ip = m.group(2).replace("_", "")
    fp = (m.group(3) or "").replace("_", "").rstrip("0")
    ex = int(m.group(4) or 0) - len(fp)
    mant = int(ip + fp)
    while mant != 0 and mant % 10 == 0 and ex < 0:
        mant //= 10
        ex += 1
    if mant == 0:
        ex = 0
    if mant >= max_mantissa or abs(ex) > max_exp:
        raise TranslateError("%s: literal %r is outside the exactly reproducible range" % (where, text))
    return (-mant if m.group(1) else mant), ex


def is_float_literal(text):
    return bool(re.fullmatch(r"\d[\d_]*\.(\d[\d_]*)?(?:[eE][+-]?\d+)?(?:_?f64|_?f32)?|\d[\d_]*(?:[eE][+-]?\d+)?_?(?:f64|f32)", text))


def coq_z(z):
    return "(%d)" % z if z < 0 else "%d" % z


def coq_string(s):
    """a Gallina term of type `string` for an arbitrary byte string (non-printable characters by their code)"""
    parts, cur = [], []
    for ch in s:
        o = ord(ch)
        if o > 127:
            raise TranslateError("non-ASCII character in a translated string literal")
        if 32 <= o < 127 and ch != '"':
            cur.append(ch)
        else:
            if cur:
                parts.append('"%s"' % "".join(cur))
                cur = []
            parts.append('(String (ascii_of_nat %d) EmptyString)' % o)
    if cur:
        parts.append('"%s"' % "".join(cur))
    if not parts:
        return "EmptyString"
    return parts[0] if len(parts) == 1 else "(" + " ++ ".join(parts) + ")"


def write_if_changed(path, content):
    old = open(path).read() if os.path.exists(path) else None
    if old != content:
        os.makedirs(os.path.dirname(path), exist_ok=True)
        open(path, "w").write(content)
        return True
    return False


def digest(files):
    h, per = hashlib.sha256(), {}
    for f in files:
        h.update(f.raw)
        per[f.rel] = f.sha()[:16]
    return h.hexdigest(), per


def fail_closed(parse, repo, where):
    """run a translator's parser; an internal error on an unexpected tree shape is reported like any other
    unrecognised source (fail closed), naming the files that were being read"""
    try:
        return parse(repo)
    except TranslateError:
        raise
    except (IndexError, KeyError, TypeError, AttributeError, ValueError) as e:
        raise TranslateError("%s: source shape not recognised (%s: %s)" % (where, type(e).__name__, e))
