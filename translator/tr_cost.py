"""Translator for the cost constants and the two clamps of `Cost` (property C07).

Reads, under <repo>/rust/routee-compass-core/src/model/unit/:
  * internal_float.rs : the literals of InternalFloat::{ZERO, ONE, MIN},
  * cost.rs           : Cost::{ZERO, ONE, MIN_COST} (which InternalFloat constant each one names) and the
                        bodies of `enforce_strictly_positive` / `enforce_non_negative`
                        (`if cost <op> Cost::ZERO { <replacement> } else { cost }`),
and writes <gen_dir>/CostConsts.v: every literal as (mantissa, decimal exponent) exactly as written in the
source (`0.0000000001` -> (1, -10)), the comparison operator of each clamp (CLe / CLt) and the constant each
clamp substitutes.  coq/Model/Cost.v is written against these names, so the theorems of Props/C07.v are
re-checked against what the source says now.

Deliberately narrow, FAILS CLOSED: anything it does not recognise raises TranslateError naming file and line.
"""
import hashlib
import os
import re

UNIT_DIR = "rust/routee-compass-core/src/model/unit"
SOURCE_FILES = ["cost.rs", "internal_float.rs"]
MAX_MANTISSA = 2 ** 53
MAX_EXP = 18


class TranslateError(Exception):
    pass


def strip_comments(src):
    """remove // and /* */ comments, keeping every newline"""
    out, i, n = [], 0, len(src)
    while i < n:
        if src.startswith("//", i):
            while i < n and src[i] != "\n":
                i += 1
        elif src.startswith("/*", i):
            depth = 1
            i += 2
            while i < n and depth:
                if src.startswith("/*", i):
                    depth += 1
                    i += 2
                elif src.startswith("*/", i):
                    depth -= 1
                    i += 2
                else:
                    if src[i] == "\n":
                        out.append("\n")
                    i += 1
        else:
            out.append(src[i])
            i += 1
    return "".join(out)


class Src:
    def __init__(self, repo, fname):
        self.path = os.path.join(repo, UNIT_DIR, fname)
        self.fname = fname
        if not os.path.exists(self.path):
            raise TranslateError("%s: file not found" % self.path)
        self.raw = open(self.path, "rb").read()
        self.text = strip_comments(self.raw.decode("utf-8"))

    def line(self, pos):
        return self.text.count("\n", 0, pos) + 1

    def err(self, pos, msg):
        raise TranslateError("%s:%d: %s" % (self.path, self.line(pos), msg))

    def one(self, regex, what):
        ms = list(re.finditer(regex, self.text, re.S))
        if len(ms) != 1:
            raise TranslateError("%s: expected exactly one %s, found %d" % (self.path, what, len(ms)))
        return ms[0]


def parse_literal(s, pos, txt):
    """decimal float literal -> (mantissa, exponent), value = mantissa * 10^exponent, digits as written"""
    m = re.fullmatch(r"(\d[\d_]*)\.(\d[\d_]*)?(?:[eE]([+-]?\d+))?(?:_?f64)?", txt.strip())
    if not m:
        s.err(pos, "unrecognised float literal %r" % txt)
    ip = m.group(1).replace("_", "")
    fp = (m.group(2) or "").replace("_", "").rstrip("0")
    ex = int(m.group(3) or 0) - len(fp)
    mant = int(ip + fp)
    while mant != 0 and mant % 10 == 0 and ex < 0:
        mant //= 10
        ex += 1
    if mant == 0:
        ex = 0
    if mant >= MAX_MANTISSA or abs(ex) > MAX_EXP:
        s.err(pos, "literal %r is outside the exactly reproducible range (mantissa < 2^53, |exp| <= %d)" % (txt, MAX_EXP))
    return mant, ex


def parse_all(repo):
    fl = Src(repo, "internal_float.rs")
    co = Src(repo, "cost.rs")
    out = {"internal": {}, "cost": {}, "clamps": {}}
    # InternalFloat constants (INFINITY is recognised and skipped: not a decimal literal)
    if not re.search(r"pub\s+struct\s+InternalFloat\s*\(\s*OrderedFloat\s*<\s*f64\s*>\s*\)\s*;", fl.text):
        raise TranslateError("%s: InternalFloat is no longer a newtype over OrderedFloat<f64>" % fl.path)
    # InternalFloat must use the derived (componentwise) arithmetic and ordering of OrderedFloat<f64>
    fdm = fl.one(r"#\[derive\(([^\]]*)\)\]\s*pub\s+struct\s+InternalFloat\b", "derive list of InternalFloat")
    fder = {d.strip() for d in fdm.group(1).split(",") if d.strip()}
    for need in ("Add", "Sub", "Mul", "PartialOrd", "PartialEq", "Ord", "Eq"):
        if need not in fder:
            fl.err(fdm.start(), "InternalFloat no longer derives %s" % need)
    for tr in ("PartialOrd", "PartialEq", "Ord", "Add", "Sub", "Mul"):
        if re.search(r"impl\b[^{;]*\b%s\b[^{;]*\bfor\s+(InternalFloat|Cost)\b" % tr, fl.text + co.text):
            raise TranslateError("%s / %s: hand-written impl of %s for InternalFloat or Cost (the model assumes the derived one)" % (fl.path, co.path, tr))
    consts = list(re.finditer(r"pub\s+const\s+(\w+)\s*:\s*InternalFloat\s*=\s*([^;]*);", fl.text))
    for m in consts:
        name, rhs = m.group(1), m.group(2).strip()
        mm = re.fullmatch(r"InternalFloat\s*\(\s*OrderedFloat\s*\(\s*([^()]*?)\s*\)\s*\)", rhs)
        if not mm:
            fl.err(m.start(), "unrecognised InternalFloat constant %s = %s" % (name, rhs))
        if mm.group(1) == "f64::INFINITY":
            continue
        out["internal"][name] = parse_literal(fl, m.start(), mm.group(1))
    for need in ("ZERO", "ONE", "MIN"):
        if need not in out["internal"]:
            raise TranslateError("%s: InternalFloat::%s not found" % (fl.path, need))
    if out["internal"]["ZERO"] != (0, 0):
        raise TranslateError("%s: InternalFloat::ZERO is not 0.0" % fl.path)
    if out["internal"]["ONE"] != (1, 0):
        raise TranslateError("%s: InternalFloat::ONE is not 1.0" % fl.path)
    # Cost constants
    if not re.search(r"pub\s+struct\s+Cost\s*\(\s*InternalFloat\s*\)\s*;", co.text):
        raise TranslateError("%s: Cost is no longer a newtype over InternalFloat" % co.path)
    for m in re.finditer(r"pub\s+const\s+(\w+)\s*:\s*Cost\s*=\s*([^;]*);", co.text):
        name, rhs = m.group(1), m.group(2).strip()
        mm = re.fullmatch(r"Cost\s*\(\s*InternalFloat::(\w+)\s*\)", rhs)
        if not mm:
            co.err(m.start(), "unrecognised Cost constant %s = %s" % (name, rhs))
        if mm.group(1) == "INFINITY":
            continue
        if mm.group(1) not in out["internal"]:
            co.err(m.start(), "Cost::%s names unknown InternalFloat::%s" % (name, mm.group(1)))
        out["cost"][name] = (mm.group(1), out["internal"][mm.group(1)])
    for need, want in (("ZERO", "ZERO"), ("ONE", "ONE"), ("MIN_COST", None)):
        if need not in out["cost"]:
            raise TranslateError("%s: Cost::%s not found" % (co.path, need))
        if want and out["cost"][need][0] != want:
            raise TranslateError("%s: Cost::%s is InternalFloat::%s, expected %s" % (co.path, need, out["cost"][need][0], want))
    # Cost::new must be the plain wrapper
    co.one(r"pub\s+fn\s+new\s*\(\s*value\s*:\s*f64\s*\)\s*->\s*Cost\s*\{\s*Cost\s*\(\s*InternalFloat::new\s*\(\s*value\s*\)\s*\)\s*\}",
           "`Cost::new(value) = Cost(InternalFloat::new(value))`")
    # Cost must use the derived (componentwise) arithmetic and ordering
    dm = co.one(r"#\[derive\(([^\]]*)\)\]\s*pub\s+struct\s+Cost\b", "derive list of Cost")
    derives = {d.strip() for d in dm.group(1).split(",") if d.strip()}
    for need in ("Add", "Sub", "Mul", "PartialOrd", "PartialEq"):
        if need not in derives:
            co.err(dm.start(), "Cost no longer derives %s" % need)
    # the two clamps
    for fn, key in (("enforce_strictly_positive", "ESP"), ("enforce_non_negative", "ENN")):
        m = co.one(r"pub\s+fn\s+%s\s*\(\s*cost\s*:\s*Cost\s*\)\s*->\s*Cost\s*\{(.*?)\n    \}" % fn, "fn " + fn)
        body = " ".join(m.group(1).split())
        mm = re.fullmatch(r"if cost (<=|<) Cost::(\w+) \{ Cost::(\w+) \} else \{ cost \}", body)
        if not mm:
            co.err(m.start(), "unrecognised body of %s: %r" % (fn, body))
        for g, what in ((2, "compares with"), (3, "substitutes")):
            if mm.group(g) not in out["cost"]:
                co.err(m.start(), "%s %s unknown Cost::%s" % (fn, what, mm.group(g)))
        # (operator, substituted constant, constant the cost is compared with)
        out["clamps"][key] = ("CLe" if mm.group(1) == "<=" else "CLt", mm.group(3), mm.group(2))
    return out


# what the unchanged source says; written ONLY when the source cannot be translated and no generated file exists yet
# (a scratch checkout), so that the model still compiles and the correspondence stream can search for a failing input.
# generate() still reports ok = False in that case.
BASELINE = {"cost": {"ZERO": ("ZERO", (0, 0)), "ONE": ("ONE", (1, 0)), "MIN_COST": ("MIN", (1, -10))},
            "clamps": {"ESP": ("CLe", "MIN_COST", "ZERO"), "ENN": ("CLt", "ZERO", "ZERO")}}


def digest(repo):
    h, per = hashlib.sha256(), {}
    for f in SOURCE_FILES:
        b = open(os.path.join(repo, UNIT_DIR, f), "rb").read()
        h.update(b)
        per[f] = hashlib.sha256(b).hexdigest()[:16]
    return h.hexdigest(), per


def coq_z(z):
    return "(%d)" % z if z < 0 else "%d" % z


def render(p):
    L = ["(* GENERATED by translator/tr_cost.py from rust/routee-compass-core/src/model/unit/{cost,internal_float}.rs -- do not edit.",
         "   Decimal literals as (mantissa, decimal exponent) exactly as written in the source; the comparison",
         "   operator and the substituted constant of Cost::enforce_strictly_positive / enforce_non_negative. *)",
         "From Coq Require Import ZArith.",
         "Open Scope Z_scope.",
         "",
         "Module CostConsts.",
         "",
         "Inductive cmp : Set := CLe | CLt.   (* `cost <= bound` | `cost < bound` *)",
         ""]
    for name in ("ZERO", "ONE", "MIN_COST"):
        src, (m, e) = p["cost"][name]
        L.append("Definition %s : Z * Z := (%s, %s).   (* Cost::%s = InternalFloat::%s *)" % (name, coq_z(m), coq_z(e), name, src))
    L.append("")
    for key, fn in (("ESP", "enforce_strictly_positive"), ("ENN", "enforce_non_negative")):
        op, sub, bound = p["clamps"][key]
        m, e = p["cost"][sub][1]
        bm, be = p["cost"][bound][1]
        L.append("(* Cost::%s: if cost %s Cost::%s { Cost::%s } else { cost } *)" % (fn, "<=" if op == "CLe" else "<", bound, sub))
        L.append("Definition %s_CMP : cmp := %s." % (key, op))
        L.append("Definition %s_BOUND : Z * Z := (%s, %s)." % (key, coq_z(bm), coq_z(be)))
        L.append("Definition %s_SUBST : Z * Z := (%s, %s)." % (key, coq_z(m), coq_z(e)))
    L += ["", "End CostConsts."]
    return "\n".join(L) + "\n"


def write_if_changed(path, content):
    old = open(path).read() if os.path.exists(path) else None
    if old != content:
        os.makedirs(os.path.dirname(path), exist_ok=True)
        open(path, "w").write(content)
        return True
    return False


def generate(repo, gen_dir):
    target = os.path.join(gen_dir, "CostConsts.v")
    try:
        p = parse_all(repo)      # raises TranslateError (file:line) on anything unrecognised
    except TranslateError as e:
        wrote = ""
        if not os.path.exists(target):
            write_if_changed(target, "(* FALLBACK: the source could not be translated (%s); constants of the unchanged source *)\n"
                             % re.sub(r"[^A-Za-z0-9_ ./:<=>{}-]", " ", str(e)) + render(BASELINE))
            wrote = " [baseline constants written so that the stream can still search for a failing input]"
        return {"ok": False, "msg": "TranslateError: %s%s" % (e, wrote), "digest": "", "changed": bool(wrote)}
    dg, per = digest(repo)
    changed = write_if_changed(os.path.join(gen_dir, "CostConsts.v"), render(p))
    return {"ok": True, "msg": "CostConsts.v: MIN_COST = %d * 10^%d, strictly-positive clamp %s -> %s, non-negative clamp %s -> %s%s"
            % (p["cost"]["MIN_COST"][1][0], p["cost"]["MIN_COST"][1][1], p["clamps"]["ESP"][0] + " " + p["clamps"]["ESP"][2], p["clamps"]["ESP"][1],
               p["clamps"]["ENN"][0] + " " + p["clamps"]["ENN"][2], p["clamps"]["ENN"][1], " (rewritten)" if changed else " (unchanged)"),
            "digest": dg, "files": per, "changed": changed, "parsed": p}


if __name__ == "__main__":
    import sys
    print(generate(sys.argv[1] if len(sys.argv) > 1 else "/repo", sys.argv[2] if len(sys.argv) > 2 else "/tmp/c07/gen")["msg"])
