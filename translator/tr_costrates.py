"""Translator for the cost RATES and the cost AGGREGATION of the cost model (property C07).

Reads, under <repo>/rust/routee-compass-core/src/model/cost/:
  * vehicle/vehicle_cost_rate.rs : `enum VehicleCostRate` (variants and field types) and the arms of
                                   `VehicleCostRate::map_value` (Zero / Raw / Factor / Offset / the Combined fold),
  * network/network_cost_rate.rs : `enum NetworkCostRate` and the arms of `NetworkCostRate::traversal_cost` and
                                   `NetworkCostRate::access_cost` (which variant looks which key up, the default of a miss,
                                   the Combined sum),
  * cost_aggregation.rs          : `enum CostAggregation` and the arms of `CostAggregation::agg` (fold form) and
                                   `CostAggregation::agg_iter` (loop form: initial value, update expression, the value
                                   of an empty product),
and writes <gen_dir>/CostRates.v: three inductive types with one constructor per Rust variant, and one Gallina function
per Rust function, generic in the numeric record `Num` (exact rationals in theorems, binary64 in execution), with the
arithmetic in the ORDER of the Rust expressions.  Every arithmetic expression, fold seed, comparison and lookup default
is compiled from the parsed source (translator/rsparse.py); nothing of it is written in this file.

The tie to the proofs: coq/Props/GenCostRates.v proves, for ALL inputs, that the hand-written model agrees with these
generated definitions (`gen_map_value_agrees`, `gen_n_traversal_agrees`, `gen_n_access_agrees`, `gen_aggregate_agrees`,
`gen_agg_slice_agrees`, and that the generated enums have exactly the constructors of the model's).  Those lemmas are
proof obligations of C07 (checks/c07.py): an edit of the Rust arms changes CostRates.v and breaks them.

The output is not trusted on faith: the `cost` stream of checks/c07.py executes coq/Model/Cost.v (proved equal to
these definitions) in binary64 against the real `CostModel` entry points bit for bit, over every rate shape nested
<= 3 and both aggregations.

What the generated functions say about errors: `traversal_cost` / `access_cost` return `Ok` in every arm (the
translator checks that, and that the only `?` is on the collected recursive calls), so they are emitted as total
functions; `agg_iter` is emitted as its value on an item list without `Err` items (the first `Err` item is returned
unchanged by `let (_, cost) = cost?` -- that propagation is the hand-written `per_feature` of Model/Cost.v).

Deliberately narrow, FAILS CLOSED: anything outside the recognised shapes raises TranslateError naming file and line.
Local variable names, white space, comments and trailing commas do not matter.
"""
import os
import sys

sys.path.insert(0, os.path.dirname(os.path.abspath(__file__)))
import rsparse as R  # noqa: E402
from rsparse import TranslateError  # noqa: E402

DIR = "rust/routee-compass-core/src/model/cost"
SOURCES = ["vehicle/vehicle_cost_rate.rs", "network/network_cost_rate.rs", "cost_aggregation.rs"]

NUM_TYPES = {"f64", "Cost", "StateVar", "&Cost", "&StateVar", "&f64"}
EDGE_TYPES = {"&Edge", "Edge"}
PAIRS_TYPES = {"&[(&String,Cost)]"}
HM_EDGE = "HashMap<EdgeId,Cost>"
HM_PAIR = "HashMap<(EdgeId,EdgeId),Cost>"


def v(name):
    return "v_" + name


class Fn:
    """compiles one `fn` whose body is `match self { arms }` into a Gallina Definition / Fixpoint"""

    def __init__(self, f, enum_name, variants, fname, params, ret, body, line, consts):
        self.f, self.enum, self.variants, self.fname = f, enum_name, variants, fname
        self.params, self.ret, self.body, self.line = params, ret, body, line
        self.result_mode = ret is not None and ret.startswith("Result<")
        self.recursive = False
        self.consts = consts
        self.ptags = []
        for (pn, pt) in params[1:]:
            if pt in NUM_TYPES:
                self.ptags.append((pn, "num"))
            elif pt in EDGE_TYPES:
                self.ptags.append((pn, "edge"))
            elif pt in PAIRS_TYPES or (pt.startswith("impl Iterator<Item=Result<(&") and pt.endswith("String,Cost),CostModelError>>")):
                self.ptags.append((pn, "pairs"))
            else:
                self.err("parameter `%s: %s` has a type outside the translated subset" % (pn, pt))
        if not params or params[0][0] != "self" or params[0][1] != "&self":
            self.err("expected `&self` as the first parameter")

    def err(self, msg, line=None):
        raise TranslateError("%s:%d: fn %s: %s" % (self.f.path, line or self.line, self.fname, msg))

    # ---- value kinds
    def num(self, e, env):
        k = e[0]
        if k == "path":
            segs = e[1]
            if len(segs) == 1 and segs[0] in env:
                term, tag = env[segs[0]]
                if tag != "num":
                    self.err("`%s` is used as a number but is a %s" % (segs[0], tag))
                return term
            if len(segs) == 2 and segs[0] == "Cost" and segs[1] in self.consts:
                return "Cost_" + segs[1]
            self.err("unrecognised value `%s`" % "::".join(segs))
        if k == "num":
            if not R.is_float_literal(e[1]):
                self.err("integer literal `%s` where a float is expected" % e[1])
            m, x = R.float_literal(e[1], self.f.path)
            return "(lit %s %s)" % (R.coq_z(m), R.coq_z(x))
        if k == "field" and e[2] == "0":
            return self.num(e[1], env)                     # StateVar.0 / Cost.0: the wrapped f64
        if k == "call" and e[1][0] == "path" and e[1][1] in (["Cost", "new"], ["StateVar"], ["Cost"]) and len(e[2]) == 1:
            return self.num(e[2][0], env)                  # newtype wrappers
        if k == "mcall" and e[2] in ("as_f64", "to_owned", "clone") and not e[3]:
            return self.num(e[1], env)
        if k == "unary" and e[1] in ("*", "&"):
            return self.num(e[2], env)
        if k == "unary" and e[1] == "-":
            return "(opp %s)" % self.num(e[2], env)
        if k == "bin" and e[1] in ("+", "-", "*", "/"):
            op = {"+": "add", "-": "sub", "*": "mul", "/": "div"}[e[1]]
            return "(%s %s %s)" % (op, self.num(e[2], env), self.num(e[3], env))
        if k == "mcall" and e[2] == "fold" and len(e[3]) == 2 and e[3][1][0] == "closure" and len(e[3][1][1]) == 2:
            lst, elem = self.lst(e[1], env)
            init = self.num(e[3][0], env)
            pa, pb = e[3][1][1]
            env2 = dict(env)
            ba = self.binder(pa, "num", env2)
            bb = self.binder(pb, elem, env2)
            return "(fold_left (fun %s %s => %s) %s %s)" % (ba, bb, self.num(e[3][1][2], env2), lst, init)
        if k == "mcall" and e[2] == "unwrap_or" and len(e[3]) == 1 and e[1][0] == "mcall" and e[1][2] == "get" and len(e[1][3]) == 1:
            m = e[1][1]
            if m[0] != "path" or len(m[1]) != 1 or m[1][0] not in env or env[m[1][0]][1] not in ("hm_edge", "hm_pair"):
                self.err("`.get(..).unwrap_or(..)` on something that is not a lookup table of the variant")
            term, tag = env[m[1][0]]
            key = self.key(e[1][3][0], env, tag)
            dflt = self.num(e[3][0], env)
            keq = "Z.eqb" if tag == "hm_edge" else "edge_pair_eqb"
            return "(match hm_get %s %s %s with Some c => c | None => %s end)" % (keq, term, key, dflt)
        if k == "mcall" and e[2] == self.fname and e[1][0] == "path" and len(e[1][1]) == 1 \
                and e[1][1][0] in env and env[e[1][1][0]][1] == "self":
            if len(e[3]) != len(self.ptags):
                self.err("recursive call with %d arguments, expected %d" % (len(e[3]), len(self.ptags)))
            args = []
            for a, (pn, tag) in zip(e[3], self.ptags):
                args.append(self.num(a, env) if tag == "num" else self.edge(a, env) if tag == "edge" else self.lst(a, env)[0])
            self.recursive = True
            return "(%s %s%s)" % (self.fname, env[e[1][1][0]][0], "".join(" " + a for a in args))
        if k == "block":
            return self.block(e, env)
        if k == "if" and e[3] is not None and e[1][0] != "let":
            return "(if %s then %s else %s)" % (self.boolean(e[1], env), self.num(e[2], env), self.num(e[3], env))
        self.err("unrecognised numeric expression of kind `%s`: %r" % (k, e if len(repr(e)) < 160 else repr(e)[:160]))

    def edge(self, e, env):
        if e[0] == "unary" and e[1] in ("&", "*"):
            return self.edge(e[2], env)
        if e[0] == "field" and e[2] == "edge_id":
            return self.edge(e[1], env)                    # an Edge is represented by its EdgeId
        if e[0] == "path" and len(e[1]) == 1 and e[1][0] in env and env[e[1][0]][1] == "edge":
            return env[e[1][0]][0]
        self.err("unrecognised edge expression %r" % (e,))

    def key(self, e, env, tag):
        while e[0] == "unary" and e[1] == "&":
            e = e[2]
        if tag == "hm_edge":
            if not (e[0] == "field" and e[2] == "edge_id"):
                self.err("an EdgeId lookup key must be `<edge>.edge_id`")
            return self.edge(e, env)
        if e[0] != "tuple" or len(e[1]) != 2 or not all(x[0] == "field" and x[2] == "edge_id" for x in e[1]):
            self.err("an (EdgeId, EdgeId) lookup key must be `(<edge>.edge_id, <edge>.edge_id)`")
        return "(%s, %s)" % (self.edge(e[1][0], env), self.edge(e[1][1], env))

    def lst(self, e, env):
        """(term, element tag)"""
        if e[0] == "path" and len(e[1]) == 1 and e[1][0] in env and env[e[1][0]][1] in ("list_self", "list_num", "pairs"):
            term, tag = env[e[1][0]]
            return term, {"list_self": "self", "list_num": "num", "pairs": "pair"}[tag]
        if e[0] == "mcall" and e[2] in ("iter", "peekable", "into_iter") and not e[3]:
            return self.lst(e[1], env)
        if e[0] == "mcall" and e[2] == "collect" and not e[3]:
            return self.lst(e[1], env)
        if e[0] == "mcall" and e[2] == "map" and len(e[3]) == 1 and e[3][0][0] == "closure" and len(e[3][0][1]) == 1:
            lst, elem = self.lst(e[1], env)
            env2 = dict(env)
            b = self.binder(e[3][0][1][0], elem, env2)
            return "(map (fun %s => %s) %s)" % (b, self.num(e[3][0][2], env2), lst), "num"
        if e[0] == "try" and self.result_mode:
            # `iter().map(|f| f.<this fn>(..)).collect::<Result<Vec<_>, _>>()?` : every arm of this fn is `Ok`,
            # so the collected Result is `Ok` of the list
            inner = e[1]
            ok = (inner[0] == "mcall" and inner[2] == "collect" and inner[1][0] == "mcall" and inner[1][2] == "map"
                  and inner[1][3] and inner[1][3][0][0] == "closure" and inner[1][3][0][2][0] == "mcall"
                  and inner[1][3][0][2][2] == self.fname)
            if not ok:
                self.err("`?` on something else than the collected recursive calls")
            return self.lst(inner, env)
        self.err("unrecognised list expression %r" % (e if len(repr(e)) < 160 else repr(e)[:160],))

    def boolean(self, e, env):
        if e[0] == "mcall" and e[2] == "is_empty" and not e[3]:
            return "(is_empty %s)" % self.lst(e[1], env)[0]
        if e[0] == "mcall" and e[2] == "is_none" and not e[3] and e[1][0] == "mcall" and e[1][2] == "peek" and not e[1][3]:
            return "(is_empty %s)" % self.lst(e[1][1], env)[0]   # Peekable::peek() is None iff nothing is left
        if e[0] == "unary" and e[1] == "!":
            return "(negb %s)" % self.boolean(e[2], env)
        self.err("unrecognised condition %r" % (e,))

    def binder(self, pat, tag, env):
        if pat[0] == "pref":
            pat = pat[1]
        if tag in ("num", "self"):
            if pat[0] == "pid":
                env[pat[1]] = (v(pat[1]), tag)
                return v(pat[1])
            if pat[0] == "pwild":
                return "_"
        if tag == "pair" and pat[0] == "ptuple" and len(pat[1]) == 2 and pat[1][0][0] == "pwild" and pat[1][1][0] == "pid":
            env[pat[1][1][1]] = (v(pat[1][1][1]), "num")
            return "'(_, %s)" % v(pat[1][1][1])
        self.err("unrecognised closure / loop pattern %r for a %s" % (pat, tag))

    def ok_value(self, e, env):
        """value of an arm: in Result mode it must be `Ok(<value>)`"""
        if self.result_mode:
            if e[0] == "call" and e[1] == ("path", ["Ok"]) and len(e[2]) == 1:
                return self.num(e[2][0], env)
            if e[0] == "block":
                return self.block(e, env, tail_ok=True)
            self.err("an arm of a Result-returning fn must end in `Ok(..)` (errors are outside the translated subset)")
        return self.num(e, env)

    def block(self, e, env, tail_ok=False):
        stmts, tail = e[1], e[2]
        env = dict(env)
        out, i, close = [], 0, 0
        while i < len(stmts):
            s = stmts[i]
            if s[0] == "let" and s[1][0] == "pid" and s[3] is not None:
                name, val, mutable = s[1][1], s[3], s[4]
                if mutable and i + 1 < len(stmts) and stmts[i + 1][0] == "for":
                    # let mut ACC = INIT; for X in ITER { let (_, Y) = X?; ACC = EXPR; }   ==>  fold_left
                    loop = stmts[i + 1]
                    init = self.num(val, env)
                    lst, elem = self.lst(loop[2], env)
                    b = loop[3]
                    if loop[1][0] != "pid" or elem != "pair" or b[2] is not None or len(b[1]) != 2:
                        self.err("unrecognised `for` loop shape")
                    l0, l1 = b[1]
                    if not (l0[0] == "let" and l0[3] == ("try", ("path", [loop[1][1]])) and not l0[4]
                            and l1[0] == "assign" and l1[1] == ("path", [name]) and l1[2] == "="):
                        self.err("the loop body must be `let (_, y) = x?; %s = <expr>;`" % name)
                    env2 = dict(env)
                    env2[name] = (v(name), "num")
                    by = self.binder(l0[1], "pair", env2)
                    upd = self.num(l1[3], env2)
                    out.append("let %s := fold_left (fun %s %s => %s) %s %s in " % (v(name), v(name), by, upd, lst, init))
                    env[name] = (v(name), "num")
                    i += 2
                    continue
                if mutable and val[0] == "mcall" and val[2] == "peekable":
                    term, elem = self.lst(val, env)
                    env[name] = (term, "pairs")             # a Peekable over the same items
                    i += 1
                    continue
                if mutable:
                    self.err("`let mut %s` that is not a loop accumulator" % name)
                # list-valued or number-valued binding
                try:
                    term, elem = self.lst(val, env)
                    if elem != "num":
                        self.err("a bound list must be a list of costs")
                    out.append("let %s := %s in " % (v(name), term))
                    env[name] = (v(name), "list_num")
                except TranslateError:
                    out.append("let %s := %s in " % (v(name), self.num(val, env)))
                    env[name] = (v(name), "num")
                i += 1
                continue
            if s[0] == "expr" and s[1][0] == "if" and s[1][3] is None and s[1][1][0] != "let":
                # if COND { return Ok(V); }  <rest>
                th = s[1][2]
                if not (th[2] is None and len(th[1]) == 1 and th[1][0][0] == "expr" and th[1][0][1][0] == "return"
                        and th[1][0][1][1] is not None) and not (not th[1] and th[2] and th[2][0] == "return"):
                    self.err("an `if` without `else` must be an early `return`")
                ret = th[1][0][1][1] if th[1] else th[2][1]
                out.append("if %s then %s else (" % (self.boolean(s[1][1], env), self.ok_value(ret, env)))
                close += 1
                i += 1
                continue
            self.err("unrecognised statement %r" % (s if len(repr(s)) < 200 else repr(s)[:200],))
        if tail is None:
            self.err("a block without a value")
        val = self.ok_value(tail, env) if tail_ok else self.num(tail, env)
        return "(" + "".join(out) + val + ")" * close + ")"

    # ---- the whole function
    def compile(self):
        b = self.body
        if b[1] or b[2] is None or b[2][0] != "match" or b[2][1] != ("path", ["self"]):
            self.err("the body is not a single `match self { .. }`")
        env0 = {}
        for pn, tag in self.ptags:
            env0[pn] = (v(pn), tag)
        arms, seen = [], set()
        vmap = {vn: (kind, fields) for vn, kind, fields in self.variants}
        for pat, guard, body in b[2][2]:
            if guard is not None:
                self.err("match guards are outside the translated subset")
            env = dict(env0)
            if pat[0] == "pwild":
                arms.append(("_", body, env))
                seen = set(vmap)
                continue
            segs = pat[1]
            if len(segs) != 2 or segs[0] not in (self.enum, "Self") or segs[1] not in vmap:
                self.err("arm pattern names an unknown variant %s" % "::".join(segs))
            vn = segs[1]
            if vn in seen:
                self.err("variant %s matched twice" % vn)
            seen.add(vn)
            kind, fields = vmap[vn]
            binders = []
            if kind == "unit":
                if pat[0] != "ppath":
                    self.err("unit variant %s matched with fields" % vn)
            elif kind == "struct":
                if pat[0] != "pstruct":
                    self.err("struct variant %s matched without `{ .. }`" % vn)
                given = dict(pat[2])
                for fn_, _ in pat[2]:
                    if fn_ not in [x[0] for x in fields]:
                        self.err("variant %s has no field %s" % (vn, fn_))
                if not pat[3] and len(given) != len(fields):
                    self.err("variant %s: not every field is matched" % vn)
                for fname, ftype in fields:
                    binders.append(self.field_binder(given.get(fname, ("pwild",)), ftype, env))
            else:
                if pat[0] != "pts" or len(pat[2]) != len(fields):
                    self.err("tuple variant %s matched with the wrong arity" % vn)
                for p, (_, ftype) in zip(pat[2], fields):
                    binders.append(self.field_binder(p, ftype, env))
            arms.append(("%s_%s%s" % (self.enum, vn, "".join(" " + x for x in binders)), body, env))
        if seen != set(vmap):
            self.err("variants not matched: %s" % ", ".join(sorted(set(vmap) - seen)))
        lines = []
        for head, body, env in arms:
            lines.append("    | %s => %s" % (head, self.ok_value(body, env)))
        params = "".join(" (%s : %s)" % (v(pn), {"num": "N", "edge": "Z", "pairs": "list (string * N)"}[tag]) for pn, tag in self.ptags)
        selfty = self.enum + (" N" if self.generic else "")
        kw = "Fixpoint" if self.recursive else "Definition"
        struct = " {struct self}" if self.recursive else ""
        return "  %s %s (self : %s)%s%s : N :=\n    match self with\n%s\n    end." % (kw, self.fname, selfty, params, struct, "\n".join(lines))

    generic = True

    def field_binder(self, pat, ftype, env):
        if pat[0] == "pref":
            pat = pat[1]
        if pat[0] == "pwild":
            return "_"
        if pat[0] != "pid":
            self.err("unrecognised field pattern %r" % (pat,))
        tag = field_tag(ftype, self.enum)
        if tag is None:
            self.err("field type %s is outside the translated subset" % ftype)
        env[pat[1]] = (v(pat[1]), tag)
        return v(pat[1])


def field_tag(ftype, enum):
    if ftype in ("f64", "Cost"):
        return "num"
    if ftype == "Vec<%s>" % enum or ftype == "Vec<Self>" or ftype == "Vec<Box<%s>>" % enum:
        return "list_self"
    if ftype == HM_EDGE:
        return "hm_edge"
    if ftype == HM_PAIR:
        return "hm_pair"
    return None


def field_coq_type(ftype, enum, f, line):
    tag = field_tag(ftype, enum)
    if tag is None:
        raise TranslateError("%s:%d: enum %s: field type %s is outside the translated subset" % (f.path, line, enum, ftype))
    return {"num": "A", "list_self": "list (%s A)" % enum, "hm_edge": "list (Z * A)", "hm_pair": "list ((Z * Z) * A)"}[tag]


def render_enum(f, name, variants, line):
    generic = any(fields for _, _, fields in variants)
    L = []
    if generic:
        L.append("Inductive %s (A : Type) : Type :=" % name)
        for vn, kind, fields in variants:
            args = "".join(" (%s : %s)" % (fn_ or ("x%d" % i), field_coq_type(ft, name, f, line)) for i, (fn_, ft) in enumerate(fields))
            L.append("| %s_%s%s" % (name, vn, args))
        L[-1] += "."
        for vn, kind, fields in variants:
            L.append("Arguments %s_%s {A}%s." % (name, vn, " _" * len(fields)))
    else:
        L.append("Inductive %s : Set := %s." % (name, " | ".join("%s_%s" % (name, vn) for vn, _, _ in variants)))
    return "\n".join(L), generic


PREAMBLE = """(* GENERATED by translator/tr_costrates.py from %s/{%s} -- do not edit.
   One constructor per Rust variant (fields in declaration order), one function per Rust function; arithmetic in the
   order of the Rust expressions.  Cost / StateVar / f64 are the numeric type of the record Num; an Edge is its EdgeId (Z);
   HashMap<K, Cost> is an association list; `&[(&String, Cost)]` and the item stream of agg_iter are lists of pairs.
   Rust locals `x` are `v_x`.  Agreement with the hand-written model: Props/GenCostRates.v. *)
From Coq Require Import ZArith List String Bool.
From RC Require Import Base.Num Gen.CostConsts.
Import ListNotations.

Module CostRates.

(* ---- fixed vocabulary (what the translator assumes about std, not derived from the source) ---- *)
(* HashMap::get: the value stored under an equal key (keys are unique in a HashMap) *)
Fixpoint hm_get {K V : Type} (keq : K -> K -> bool) (m : list (K * V)) (k : K) : option V :=
  match m with
  | [] => None
  | (k', x) :: r => if keq k' k then Some x else hm_get keq r k
  end.
(* `==` on (EdgeId, EdgeId) *)
Definition edge_pair_eqb (a b : Z * Z) : bool := Z.eqb (fst a) (fst b) && Z.eqb (snd a) (snd b).
(* <[T]>::is_empty, and Peekable::peek().is_none() on a fresh iterator *)
Definition is_empty {X : Type} (l : list X) : bool := match l with [] => true | _ :: _ => false end.

(* ---- generated from the source ---- *)
"""


def parse_all(repo):
    fv = R.File(repo, os.path.join(DIR, SOURCES[0]))
    fnw = R.File(repo, os.path.join(DIR, SOURCES[1]))
    fa = R.File(repo, os.path.join(DIR, SOURCES[2]))
    consts = ("ZERO", "ONE")
    out = {"files": [fv, fnw, fa], "enums": [], "fns": []}
    for f, enum, fns in ((fv, "VehicleCostRate", ["map_value"]),
                         (fnw, "NetworkCostRate", ["traversal_cost", "access_cost"]),
                         (fa, "CostAggregation", ["agg", "agg_iter"])):
        variants, line = f.enum(enum)
        text, generic = render_enum(f, enum, variants, line)
        out["enums"].append((enum, variants, text))
        rng = f.impl_range(enum)
        for fname in fns:
            params, ret, body, fline = f.fn(fname, rng)
            fn = Fn(f, enum, variants, fname, params, ret, body, fline, consts)
            fn.generic = generic
            if ret not in ("Cost", "Result<Cost,CostModelError>"):
                fn.err("return type %s is outside the translated subset" % ret)
            text = fn.compile()
            out["fns"].append((enum, fname, [t for _, t in fn.ptags], text))
    return out


def render(p):
    L = [PREAMBLE % (DIR, ",".join(SOURCES))]
    for enum, variants, text in p["enums"]:
        L.append(text)
        L.append("")
    L.append("Section Fns.")
    L.append("  Variable N : Num.")
    L.append("  Definition Cost_ZERO : N := lit (fst CostConsts.ZERO) (snd CostConsts.ZERO).   (* Cost::ZERO, from Gen/CostConsts.v *)")
    L.append("  Definition Cost_ONE : N := lit (fst CostConsts.ONE) (snd CostConsts.ONE).      (* Cost::ONE *)")
    L.append("")
    for enum, fname, tags, text in p["fns"]:
        L.append("  (* %s::%s *)" % (enum, fname))
        L.append(text)
        L.append("")
    L.append("End Fns.")
    L.append("")
    L.append("End CostRates.")
    return "\n".join(L) + "\n"


def generate(repo, gen_dir):
    p = R.fail_closed(parse_all, repo, DIR + "/{" + ",".join(SOURCES) + "}")      # raises TranslateError on anything unrecognised
    dg, per = R.digest(p["files"])
    changed = R.write_if_changed(os.path.join(gen_dir, "CostRates.v"), render(p))
    return {"ok": True,
            "msg": "CostRates.v: %s; functions %s%s" % (
                "; ".join("%s {%s}" % (e, ", ".join(vn for vn, _, _ in vs)) for e, vs, _ in p["enums"]),
                ", ".join("%s::%s" % (e, f) for e, f, _, _ in p["fns"]), " (rewritten)" if changed else " (unchanged)"),
            "digest": dg, "files": per, "changed": changed}


if __name__ == "__main__":
    r = generate(sys.argv[1] if len(sys.argv) > 1 else "/repo", sys.argv[2] if len(sys.argv) > 2 else "/tmp/tr2/gen")
    print(r["msg"])
