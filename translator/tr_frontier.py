"""Translator for the concrete frontier models (property C04).

Reads
  * rust/routee-compass/src/app/compass/config/frontier_model/
      vehicle_restrictions/vehicle_restriction.rs        `enum VehicleRestriction`, the arms of `VehicleRestriction::valid` (which
                                                         vehicle parameter, the unit conversion (from, to), the division by the
                                                         axle count, the comparison operator and its operand order),
      vehicle_restrictions/vehicle_parameters.rs         `struct VehicleParameters` (fields and types),
      vehicle_restrictions/vehicle_restriction_model.rs  `valid_frontier` (lookup by edge id, the all-restrictions loop),
      vehicle_restrictions/vehicle_restriction_service.rs, road_class/road_class_service.rs,
      turn_restrictions/turn_restriction_service.rs      the field types of the services, `struct RestrictedEdgePair`,
      road_class/road_class_model.rs                     `valid_frontier` (no query classes = accept; lookup by edge id; the
                                                         error of a missing row; membership),
      turn_restrictions/turn_restriction_model.rs        `valid_frontier` (no previous edge = accept; (prev, next) membership),
      combined/combined_model.rs                         `valid_frontier` (all inner models, first `false` / error wins),
  * rust/routee-compass-core/src/model/frontier/frontier_model.rs            the trait's default `valid_frontier`,
    rust/routee-compass-core/src/model/frontier/default/no_restriction.rs   that NoRestriction keeps the default,
    rust/routee-compass-core/src/algorithm/search/util/edge_cut_frontier_model.rs   `valid_frontier` (cut set, else underlying),
    rust/routee-compass-core/src/model/unit/{weight,distance}.rs            that `<=` on Weight / Distance is `self.0.cmp(&other.0)`,
and writes <gen_dir>/FrontierModels.v.  An Edge is its EdgeId; the `state` / `state_model` arguments (unused by every
concrete model, passed through unchanged by the wrappers) are dropped; fields of `self` become parameters; unit
conversion, the unit types and a trait object's `valid_frontier` are Section variables.

The tie to the proofs: coq/Props/GenFrontier.v proves, for ALL inputs, that Frontier.valid and every arm of
Frontier.valid_frontier of coq/Model/Frontier.v equal the generated functions; the lemmas are proof obligations of
C04 (checks/c04.py).

The output is not trusted on faith: the `frontier` stream of checks/c04.py executes coq/Model/Frontier.v (proved equal
to these definitions) against the real services / models built from configuration and query JSON (every restriction
kind at, below and above its limit in every unit, missing rows, nested combined models).

Deliberately narrow, FAILS CLOSED (TranslateError naming file:line).  Local names, white space, comments do not matter.
"""
import os
import re
import sys

sys.path.insert(0, os.path.dirname(os.path.abspath(__file__)))
import rsparse as R  # noqa: E402
from rsparse import TranslateError  # noqa: E402
from rsmonad import Monadic, v  # noqa: E402

APP = "rust/routee-compass/src/app/compass/config/frontier_model"
CORE = "rust/routee-compass-core/src"
SOURCES = [APP + "/vehicle_restrictions/vehicle_restriction.rs", APP + "/vehicle_restrictions/vehicle_parameters.rs",
           APP + "/vehicle_restrictions/vehicle_restriction_model.rs", APP + "/vehicle_restrictions/vehicle_restriction_service.rs",
           APP + "/road_class/road_class_model.rs", APP + "/road_class/road_class_service.rs",
           APP + "/turn_restrictions/turn_restriction_model.rs", APP + "/turn_restrictions/turn_restriction_service.rs",
           APP + "/combined/combined_model.rs", CORE + "/model/frontier/frontier_model.rs",
           CORE + "/model/frontier/default/no_restriction.rs", CORE + "/algorithm/search/util/edge_cut_frontier_model.rs",
           CORE + "/model/unit/weight.rs", CORE + "/model/unit/distance.rs"]


def norm_type(t):
    t = re.sub(r"(?:\w+::)+", "", t)                  # crate::a::b::T -> T
    while True:
        m = re.fullmatch(r"(?:Arc|Box)<(.*)>", t)
        if not m:
            break
        t = m.group(1)
    t = re.sub(r"(?:Arc|Box)<([^<>]*(?:<[^<>]*>)?[^<>]*)>", r"\1", t)
    return t


TYPE_TAG = {
    "u8": "u8", "EdgeId": "edge", "&Edge": "edge", "Option<&Edge>": ("option", "edge"), "&[StateVar]": "state", "&StateModel": "sm",
    "Option<HashSet<u8>>": ("option", ("set", "u8")), "[u8]": ("vec", "u8"), "Vec<u8>": ("vec", "u8"),
    "HashSet<RestrictedEdgePair>": ("set", "edgepair"), "HashSet<EdgeId>": ("set", "edge"),
    "HashMap<EdgeId,Vec<VehicleRestriction>>": ("map", "edge", ("vec", "vr")),
    "VehicleParameters": "vp", "&VehicleParameters": "vp", "Vec<dyn FrontierModel>": ("vec", "dyn"), "dyn FrontierModel": "dyn",
    "(Weight,WeightUnit)": ("tuple", ("w", "wu")), "(Distance,DistanceUnit)": ("tuple", ("d", "du")),
}


def coq_type(tag):
    if tag in ("u8", "edge"):
        return "nat"
    if tag in ("w", "d"):
        return "N"
    if tag == "wu":
        return "WU"
    if tag == "du":
        return "DU"
    if tag == "vr":
        return "(VehicleRestriction N WU DU)"
    if tag == "vp":
        return "(VehicleParameters N WU DU)"
    if tag == "dyn":
        return "M"
    if tag == "edgepair":
        return "(nat * nat)"
    if tag == "bool":
        return "bool"
    if isinstance(tag, tuple):
        if tag[0] == "option":
            return "(option %s)" % coq_type(tag[1])
        if tag[0] in ("set", "vec"):
            return "(list %s)" % coq_type(tag[1])
        if tag[0] == "map":
            return "(%s -> option %s)" % (coq_type(tag[1]), coq_type(tag[2]))
        if tag[0] == "tuple":
            return "(%s)" % " * ".join(coq_type(x) for x in tag[1])
    raise TranslateError("no Gallina type for %r" % (tag,))


def eqb_of(tag):
    if tag in ("u8", "edge"):
        return "Nat.eqb"
    if tag == "edgepair":
        return "edge_pair_eqb"
    raise TranslateError("no equality for %r" % (tag,))


class Front(Monadic):
    """one function; `fields` maps a field path of self ("service.road_class_lookup") to (parameter name, tag)"""

    def __init__(self, f, what, fields, pair_fields=None, vp_fields=None, params_passed=None):
        Monadic.__init__(self, f, what)
        self.fields, self.pair_fields, self.vp_fields = fields, pair_fields, vp_fields or {}
        self.used = []
        self.passed = params_passed or []

    def self_field(self, e):
        path = []
        while e[0] == "field":
            path.append(e[2])
            e = e[1]
        if e == ("path", ["self"]) and path:
            key = ".".join(reversed(path))
            if key in self.fields:
                if key not in self.used:
                    self.used.append(key)
                return self.fields[key]
        return None

    def prim(self, e, env, pre):
        k = e[0]
        if k == "tuple" and not e[1]:
            return "tt", "unit"
        r = self.self_field(e) if k == "field" else None
        if r is not None:
            return r
        if k == "field" and e[2] == "edge_id":
            t, tag = self.pure(e[1], env, pre)
            if tag != "edge":
                self.err("`.edge_id` of a %s" % (tag,))
            return t, "edge"
        if k == "field" and e[2] == "0":
            t, tag = self.pure(e[1], env, pre)
            if tag != "edge":
                self.err("`.0` of a %s" % (tag,))
            return t, "edge"                     # EdgeId.0 : usize, the same natural
        if k == "field" and e[1][0] == "path" and len(e[1][1]) == 1 and e[1][1][0] in env and env[e[1][1][0]][1] == "vp":
            if e[2] not in self.vp_fields:
                self.err("VehicleParameters has no field %s" % e[2])
            return "(vp_%s %s)" % (e[2], env[e[1][1][0]][0]), self.vp_fields[e[2]]
        if k == "mcall" and e[2] == "convert" and len(e[3]) == 2:
            fu, tf = self.pure(e[1], env, pre)
            x, tx = self.pure(e[3][0], env, pre)
            tu, tt_ = self.pure(e[3][1], env, pre)
            if (tf, tx, tt_) == ("wu", "w", "wu"):
                return "(convert_weight %s %s %s)" % (fu, tu, x), "w"
            if (tf, tx, tt_) == ("du", "d", "du"):
                return "(convert_distance %s %s %s)" % (fu, tu, x), "d"
            self.err("`convert` between %s / %s / %s" % (tf, tx, tt_))
        if k == "cast" and e[2] == "f64":
            t, tag = self.pure(e[1], env, pre)
            if tag != "u8":
                self.err("`as f64` of a %s" % (tag,))
            return "(of_Z (Z.of_nat %s))" % t, "f64"
        if k == "bin" and e[1] == "/":
            a, ta = self.pure(e[2], env, pre)
            b, tb = self.pure(e[3], env, pre)
            if ta in ("w", "d") and tb == "f64":
                return "(div %s %s)" % (a, b), ta
            self.err("`/` between %s and %s" % (ta, tb))
        if k == "bin" and e[1] in ("<=", "<", ">=", ">"):
            a, ta = self.pure(e[2], env, pre)
            b, tb = self.pure(e[3], env, pre)
            if ta != tb or ta not in ("w", "d"):
                self.err("`%s` between %s and %s" % (e[1], ta, tb))
            # Ord of Weight / Distance = OrderedFloat's total order
            return {"<=": "(ord_le %s %s)" % (a, b), ">=": "(ord_le %s %s)" % (b, a),
                    "<": "(negb (ord_le %s %s))" % (b, a), ">": "(negb (ord_le %s %s))" % (a, b)}[e[1]], "bool"
        if k == "mcall" and e[2] == "contains" and len(e[3]) == 1:
            s, ts = self.pure(e[1], env, pre)
            x, tx = self.pure(e[3][0], env, pre)
            if not (isinstance(ts, tuple) and ts[0] == "set" and ts[1] == tx):
                self.err("`contains` of a %s in a %s" % (tx, ts))
            return "(set_contains %s %s %s)" % (eqb_of(tx), s, x), "bool"
        if k == "mcall" and e[2] == "get" and len(e[3]) == 1:
            m, tm = self.pure(e[1], env, pre)
            x, tx = self.pure(e[3][0], env, pre)
            if isinstance(tm, tuple) and tm[0] == "map" and tm[1] == tx:
                return "(%s %s)" % (m, x), ("option", tm[2])
            if isinstance(tm, tuple) and tm[0] == "vec" and tx == "edge":
                return "(nth_error %s %s)" % (m, x), ("option", tm[1])
            self.err("`get` of a %s in a %s" % (tx, tm))
        if k == "mcall" and e[2] == "valid" and len(e[3]) == 1:
            r_, tr = self.pure(e[1], env, pre)
            p, tp = self.pure(e[3][0], env, pre)
            if tr != "vr" or tp != "vp":
                self.err("`valid` of a %s on a %s" % (tr, tp))
            return "(valid %s %s)" % (r_, p), "bool"
        if k == "struct" and e[1] == ["RestrictedEdgePair"] and self.pair_fields:
            given = dict(e[2])
            if set(given) != set(self.pair_fields):
                self.err("RestrictedEdgePair literal with the wrong fields")
            parts = []
            for fn_ in self.pair_fields:
                t, tag = self.pure(given[fn_], env, pre)
                if tag != "edge":
                    self.err("RestrictedEdgePair.%s is a %s" % (fn_, tag))
                parts.append(t)
            return "(%s)" % ", ".join(parts), "edgepair"
        return None

    def comp_prim(self, e, env):
        k = e[0]
        # <option>.ok_or_else(|| <error>)
        if k == "mcall" and e[2] == "ok_or_else" and len(e[3]) == 1 and e[3][0][0] == "closure" and not e[3][0][1]:
            pre = []
            o, to = self.pure(e[1], env, pre)
            if not (isinstance(to, tuple) and to[0] == "option"):
                self.err("`ok_or_else` on a %s" % (to,))
            cls = self.err_class(e[3][0][2])
            return self.binds(pre, "(match %s with Some x => Ok x | None => Err %s end)" % (o, cls)), ("res", to[1])
        # <trait object>.valid_frontier(edge, state, previous_edge, state_model): the four arguments are passed through
        if k == "mcall" and e[2] == "valid_frontier" and len(e[3]) == 4:
            pre = []
            m, tm = self.pure(e[1], env, pre)
            if tm != "dyn" or pre:
                self.err("`valid_frontier` on a %s" % (tm,))
            if [a for a in e[3]] != [("path", [p]) for p in self.passed]:
                self.err("the wrapped model is not called with this call's own (edge, state, previous_edge, state_model)")
            return "(dyn_valid_frontier %s %s %s)" % (m, env[self.passed[0]][0], env[self.passed[2]][0]), ("res", "bool")
        return None

    def err_class(self, e):
        while e[0] == "block" and not e[1] and e[2] is not None:
            e = e[2]
        if e[0] == "call" and e[1][0] == "path" and len(e[1][1]) == 2 and e[1][1][0] == "FrontierModelError":
            return '(err_class "%s")' % e[1][1][1]
        self.err("an error that is not a FrontierModelError variant")

    def stmt(self, s, rest, tail, env):
        # for x in <list>.iter() { if !<test of x> { return Ok(false); } }  <rest>
        if s[0] == "for" and s[1][0] == "pid" and s[2][0] == "mcall" and s[2][2] == "iter" and not s[2][3]:
            b = s[3]
            iff = b[2] if (not b[1] and b[2] is not None) else (b[1][0][1] if len(b[1]) == 1 and b[2] is None and b[1][0][0] == "expr" else None)
            ok = (iff is not None and iff[0] == "if" and iff[3] is None and iff[1][0] == "unary" and iff[1][1] == "!"
                  and iff[2] in (("block", [("expr", ("return", ("call", ("path", ["Ok"]), [("bool", False)])))], None),
                                 ("block", [], ("return", ("call", ("path", ["Ok"]), [("bool", False)])))))
            if not ok:
                self.err("the loop body is not `if !<test> { return Ok(false); }`")
            pre = []
            lst, tl = self.pure(s[2][1], env, pre)
            if not (isinstance(tl, tuple) and tl[0] == "vec"):
                self.err("loop over a %s" % (tl,))
            env2 = dict(env)
            env2[s[1][1]] = (v(s[1][1]), tl[1])
            pre2 = []
            c, tc = self.pure(iff[1][2], env2, pre2)
            if tc != "bool":
                self.err("the loop test is a %s" % (tc,))
            body, rtag = self.comp_block(rest, tail, env)
            if not pre2:
                return self.binds(pre, "(if forallb (fun %s => %s) %s then %s else (Ok false))" % (v(s[1][1]), c, lst, body)), rtag
            test = self.binds(pre2, "(Ok %s)" % c)
            name = self.fresh("all")
            return self.binds(pre + [(name, "(all_res (fun %s => %s) %s)" % (v(s[1][1]), test, lst))],
                              "(if %s then %s else (Ok false))" % (name, body)), rtag
        return None

    def pure_block(self, blk, env):
        env = dict(env)
        out = []
        for s in blk[1]:
            if s[0] != "let" or s[3] is None or s[4]:
                self.err("unrecognised statement %s" % self.short(s))
            pre = []
            t, tag = self.pure(s[3], env, pre)
            if pre:
                self.err("a fallible expression in a function that returns no Result")
            out.append("let %s := %s in " % (self.let_pattern(s[1], tag, env), t))
        pre = []
        t, tag = self.pure(blk[2], env, pre)
        if pre:
            self.err("a fallible expression in a function that returns no Result")
        return "".join(out) + t, tag


def check_ord(f, name):
    fields, line = f.struct(name)
    if fields != [(None, "InternalFloat")]:
        f.err(line, "%s is not a newtype over InternalFloat" % name)
    for trait, fn, want in (("PartialOrd", "partial_cmp", ("call", ("path", ["Some"]), [("mcall", ("field", ("path", ["self"]), "0"), "cmp",
                                                                                     [("unary", "&", ("field", ("path", ["other"]), "0"))])])),
                            ("Ord", "cmp", ("mcall", ("field", ("path", ["self"]), "0"), "cmp", [("unary", "&", ("field", ("path", ["other"]), "0"))]))):
        params, ret, body, fl = f.fn(fn, f.impl_range(name, trait=trait))
        if body[1] or body[2] != want:
            f.err(fl, "%s::%s of %s is not `self.0.cmp(&other.0)`" % (trait, fn, name))


def struct_tags(f, name, want_fields=None):
    fields, line = f.struct(name)
    out = {}
    for fn_, ft in fields:
        out[fn_] = norm_type(ft)
    return out, line


def valid_frontier_fn(f, ty, fields, defname, comment, pair_fields=None, vp_fields=None):
    params, ret, body, line = f.fn("valid_frontier", f.impl_range(ty, trait="FrontierModel"))
    c = Front(f, "%s::valid_frontier (line %d)" % (ty, line), fields, pair_fields, vp_fields, [pn for pn, _ in params[1:]])
    tags = [TYPE_TAG.get(norm_type(pt)) for _, pt in params[1:]]
    if tags != ["edge", "state", ("option", "edge"), "sm"] or norm_type(ret or "") != "Result<bool,FrontierModelError>":
        c.err("expected (&self, &Edge, &[StateVar], Option<&Edge>, &StateModel) -> Result<bool, FrontierModelError>")
    env = {}
    for (pn, _), tag in zip(params[1:], tags):
        env[pn] = (v(pn), tag)
    t, tag = c.comp_block(body[1], body[2], env)
    if tag != ("res", "bool"):
        c.err("the body is a %s" % (tag,))
    sig = "".join(" (%s : %s)" % (fields[k][0], coq_type(fields[k][1])) for k in fields)
    unused = [k for k in fields if k not in c.used]
    e_, p_ = params[1][0], params[3][0]
    return ("  (* %s *)\n  Definition %s%s (%s : nat) (%s : option nat) : res bool :=\n    %s.\n"
            % (comment + ("; not read: " + ", ".join(unused) if unused else ""), defname, sig, v(e_), v(p_), t))


PREAMBLE = """(* GENERATED by translator/tr_frontier.py -- do not edit.  Sources:
%s
   An Edge is its EdgeId (nat); HashSet / Vec are lists, a HashMap is its lookup function; the `state` / `state_model`
   arguments of valid_frontier are dropped; fields of `self` are parameters.  Rust locals `x` are `v_x`.
   Agreement with the hand-written model: Props/GenFrontier.v. *)
From Coq Require Import ZArith List String Bool Arith.
From RC Require Import Base.Num Base.Res.
Import ListNotations.
Open Scope string_scope.

Module FrontierModels.

(* ---- fixed vocabulary (what the translator assumes about std / the crates, not derived from the source) ---- *)
(* HashSet::contains / the `contains` of a slice: some element is equal to x *)
Definition set_contains {X : Type} (eqb : X -> X -> bool) (s : list X) (x : X) : bool := existsb (eqb x) s.
(* `==` on RestrictedEdgePair (derived: field by field) *)
Definition edge_pair_eqb (a b : nat * nat) : bool := Nat.eqb (fst a) (fst b) && Nat.eqb (snd a) (snd b).
(* `a <= b` through `self.0.cmp(&other.0)` on InternalFloat(OrderedFloat<f64>): a total order in which NaN is the
   greatest value and equal to itself *)
Definition ord_le {N : Num} (a b : N) : bool := leb a b || negb (eqb b b).
(* `for x in l { if !(test x)? { return Ok(false); } }`: left to right, the first false or error wins *)
Section AllRes.
  Context {X : Type}.
  Variable f : X -> res bool.
  Fixpoint all_res (l : list X) : res bool :=
    match l with
    | [] => Ok true
    | x :: r => do b <- f x; if b then all_res r else Ok false
    end.
End AllRes.

(* ---- generated from the source ---- *)
"""


def parse_all(repo):
    F = {s: R.File(repo, s) for s in SOURCES}
    fvr, fvp, fvm, fvs, frm, frs, ftm, fts, fcm, ftr, fnr, fec, fw, fd = [F[s] for s in SOURCES]
    check_ord(fw, "Weight")
    check_ord(fd, "Distance")
    L = []
    # ---- VehicleParameters
    vpf, vpl = fvp.struct("VehicleParameters")
    vp_fields = {}
    L.append("Record VehicleParameters (A WU DU : Type) : Type := mkVehicleParameters {")
    rows = []
    for fn_, ft in vpf:
        tag = TYPE_TAG.get(norm_type(ft))
        if tag not in (("tuple", ("w", "wu")), ("tuple", ("d", "du")), "u8"):
            fvp.err(vpl, "VehicleParameters.%s : %s is outside the translated subset" % (fn_, ft))
        vp_fields[fn_] = tag
        rows.append("  vp_%s : %s" % (fn_, coq_type(tag).replace("N", "A")))
    L.append(";\n".join(rows) + " }.")
    for fn_ in vp_fields:
        L.append("Arguments vp_%s {A WU DU} _." % fn_)
    L.append("")
    # ---- VehicleRestriction
    variants, vline = fvr.enum("VehicleRestriction")
    L.append("Inductive VehicleRestriction (A WU DU : Type) : Type :=")
    vtags = {}
    for vn, kind, fields in variants:
        if kind != "tuple" or len(fields) != 1 or TYPE_TAG.get(norm_type(fields[0][1])) not in (("tuple", ("w", "wu")), ("tuple", ("d", "du"))):
            fvr.err(vline, "variant %s is not `(( quantity, unit ))`" % vn)
        vtags[vn] = TYPE_TAG[norm_type(fields[0][1])]
        L.append("| VehicleRestriction_%s (limit : A) (unit : %s)" % (vn, "WU" if vtags[vn][1][1] == "wu" else "DU"))
    L[-1] += "."
    for vn in vtags:
        L.append("Arguments VehicleRestriction_%s {A WU DU} _ _." % vn)
    L.append("")
    L.append("Section Fns.")
    L.append("  Variable N : Num.")
    L.append("  Variables WU DU : Type.                       (* WeightUnit, DistanceUnit *)")
    L.append("  Variable convert_weight : WU -> WU -> N -> N.     (* from.convert(&value, &to) *)")
    L.append("  Variable convert_distance : DU -> DU -> N -> N.")
    L.append("  Variable err_class : string -> string.            (* FrontierModelError::<variant>(..) *)")
    L.append("")
    # ---- VehicleRestriction::valid
    params, ret, body, line = fvr.fn("valid", fvr.impl_range("VehicleRestriction"))
    c = Front(fvr, "VehicleRestriction::valid (line %d)" % line, {}, vp_fields=vp_fields)
    if len(params) != 2 or TYPE_TAG.get(norm_type(params[1][1])) != "vp" or ret != "bool":
        c.err("expected fn valid(&self, &VehicleParameters) -> bool")
    m = body[2]
    if body[1] or not m or m[0] != "match" or m[1] != ("path", ["self"]):
        c.err("the body is not `match self { .. }`")
    arms, seen = [], set()
    for pat, guard, val in m[2]:
        ok = (guard is None and pat[0] == "pts" and len(pat[1]) == 2 and pat[1][0] in ("VehicleRestriction", "Self") and pat[1][1] in vtags
              and len(pat[2]) == 1 and pat[2][0][0] == "ptuple" and len(pat[2][0][1]) == 2 and all(p[0] in ("pid", "pwild") for p in pat[2][0][1]))
        if not ok:
            c.err("unrecognised arm pattern %r" % (pat[:2],))
        vn = pat[1][1]
        if vn in seen:
            c.err("variant %s matched twice" % vn)
        seen.add(vn)
        env = {params[1][0]: (v(params[1][0]), "vp")}
        bs = []
        for p, tag in zip(pat[2][0][1], vtags[vn][1]):
            if p[0] == "pid":
                env[p[1]] = (v(p[1]), tag)
                bs.append(v(p[1]))
            else:
                bs.append("_")
        if val[0] != "block" or val[2] is None:
            c.err("arm %s is not a block with a value" % vn)
        t, tag = c.pure_block(val, env)
        if tag != "bool":
            c.err("arm %s is a %s" % (vn, tag))
        arms.append("    | VehicleRestriction_%s %s => %s" % (vn, " ".join(bs), t))
    if seen != set(vtags):
        c.err("variants not matched: %s" % ", ".join(sorted(set(vtags) - seen)))
    L.append("  (* VehicleRestriction::valid *)")
    L.append("  Definition valid (self : VehicleRestriction N WU DU) (%s : VehicleParameters N WU DU) : bool :=\n    match self with\n%s\n    end.\n"
             % (v(params[1][0]), "\n".join(arms)))
    # ---- the trait default and NoRestriction
    params, ret, body, line = ftr.fn("valid_frontier", ftr.trait_range("FrontierModel"))
    c = Front(ftr, "trait FrontierModel::valid_frontier (line %d)" % line, {})
    t, tag = c.comp_block(body[1], body[2], {})
    if tag != ("res", "bool"):
        c.err("the default body is a %s" % (tag,))
    lo, hi = fnr.impl_range("NoRestriction", trait="FrontierModel")
    if lo != hi:
        fnr.err(fnr.toks[lo].line, "`impl FrontierModel for NoRestriction` is no longer empty (it overrides the default)")
    L.append("  (* trait FrontierModel: the default valid_frontier; `impl FrontierModel for NoRestriction {}` keeps it *)")
    L.append("  Definition default_valid_frontier (v_edge : nat) (v_previous_edge : option nat) : res bool :=\n    %s.\n" % t)
    # ---- the four application models
    rs, _ = struct_tags(frm, "RoadClassFrontierModel")
    rss, _ = struct_tags(frs, "RoadClassFrontierService")
    if rs.get("service") != "RoadClassFrontierService":
        frm.err(1, "RoadClassFrontierModel.service is not the RoadClassFrontierService")
    fields = {"road_classes": ("road_classes", TYPE_TAG.get(rs.get("road_classes"))),
              "service.road_class_lookup": ("road_class_lookup", TYPE_TAG.get(rss.get("road_class_lookup")))}
    if None in [x[1] for x in fields.values()]:
        frm.err(1, "field types of RoadClassFrontierModel / Service are outside the translated subset: %r %r" % (rs, rss))
    L.append(valid_frontier_fn(frm, "RoadClassFrontierModel", fields, "road_class_valid_frontier", "RoadClassFrontierModel::valid_frontier"))
    ts, _ = struct_tags(ftm, "TurnRestrictionFrontierModel")
    tss, _ = struct_tags(fts, "TurnRestrictionFrontierService")
    pf, pl = fts.struct("RestrictedEdgePair")
    if [norm_type(t) for _, t in pf] != ["EdgeId", "EdgeId"]:
        fts.err(pl, "RestrictedEdgePair is not a pair of EdgeIds")
    if ts.get("service") != "TurnRestrictionFrontierService":
        ftm.err(1, "TurnRestrictionFrontierModel.service is not the TurnRestrictionFrontierService")
    fields = {"service.restricted_edge_pairs": ("restricted_edge_pairs", TYPE_TAG.get(tss.get("restricted_edge_pairs")))}
    if fields["service.restricted_edge_pairs"][1] is None:
        fts.err(1, "restricted_edge_pairs : %s is outside the translated subset" % tss.get("restricted_edge_pairs"))
    L.append(valid_frontier_fn(ftm, "TurnRestrictionFrontierModel", fields, "turn_restriction_valid_frontier",
                               "TurnRestrictionFrontierModel::valid_frontier; a RestrictedEdgePair is (%s)" % ", ".join(x[0] for x in pf),
                               pair_fields=[x[0] for x in pf]))
    vs, _ = struct_tags(fvm, "VehicleRestrictionFrontierModel")
    vss, _ = struct_tags(fvs, "VehicleRestrictionFrontierService")
    if vs.get("service") != "VehicleRestrictionFrontierService":
        fvm.err(1, "VehicleRestrictionFrontierModel.service is not the VehicleRestrictionFrontierService")
    fields = {"service.vehicle_restriction_lookup": ("vehicle_restriction_lookup", TYPE_TAG.get(vss.get("vehicle_restriction_lookup"))),
              "vehicle_parameters": ("vehicle_parameters", TYPE_TAG.get(vs.get("vehicle_parameters")))}
    if None in [x[1] for x in fields.values()]:
        fvm.err(1, "field types of VehicleRestrictionFrontierModel / Service are outside the translated subset: %r %r" % (vs, vss))
    L.append(valid_frontier_fn(fvm, "VehicleRestrictionFrontierModel", fields, "vehicle_restriction_valid_frontier",
                               "VehicleRestrictionFrontierModel::valid_frontier", vp_fields=vp_fields))
    L.append("  Variable M : Type.                                               (* a trait object Arc<dyn FrontierModel> *)")
    L.append("  Variable dyn_valid_frontier : M -> nat -> option nat -> res bool.   (* its valid_frontier *)\n")
    cs, _ = struct_tags(fcm, "CombinedFrontierModel")
    fields = {"inner_models": ("inner_models", TYPE_TAG.get(cs.get("inner_models")))}
    if fields["inner_models"][1] is None:
        fcm.err(1, "inner_models : %s is outside the translated subset" % cs.get("inner_models"))
    L.append(valid_frontier_fn(fcm, "CombinedFrontierModel", fields, "combined_valid_frontier", "CombinedFrontierModel::valid_frontier"))
    es, _ = struct_tags(fec, "EdgeCutFrontierModel")
    fields = {"cut_edges": ("cut_edges", TYPE_TAG.get(es.get("cut_edges"))), "underlying": ("underlying", TYPE_TAG.get(es.get("underlying")))}
    if None in [x[1] for x in fields.values()]:
        fec.err(1, "field types of EdgeCutFrontierModel are outside the translated subset: %r" % (es,))
    L.append(valid_frontier_fn(fec, "EdgeCutFrontierModel", fields, "edge_cut_valid_frontier", "EdgeCutFrontierModel::valid_frontier"))
    L.append("End Fns.")
    return {"files": list(F.values()), "body": "\n".join(L), "variants": list(vtags)}


def render(p):
    return PREAMBLE % "\n".join("     " + s for s in SOURCES) + p["body"] + "\n\nEnd FrontierModels.\n"


def generate(repo, gen_dir):
    p = R.fail_closed(parse_all, repo, APP + " + core frontier / unit files")
    dg, per = R.digest(p["files"])
    changed = R.write_if_changed(os.path.join(gen_dir, "FrontierModels.v"), render(p))
    return {"ok": True, "msg": "FrontierModels.v: VehicleRestriction {%s}; valid; valid_frontier of the default / road class / turn restriction / "
            "vehicle restriction / combined / edge cut models%s" % (", ".join(p["variants"]), " (rewritten)" if changed else " (unchanged)"),
            "digest": dg, "files": per, "changed": changed}


if __name__ == "__main__":
    r = generate(sys.argv[1] if len(sys.argv) > 1 else "/repo", sys.argv[2] if len(sys.argv) > 2 else "/tmp/tr3/gen")
    print(r["msg"])
