"""Translator for the constants of the grid-search input plugin and the constructor of its index iterator (property C17).

Reads
  * rust/routee-compass/src/plugin/input/input_field.rs             the table `InputField::to_str` (variant -> field name),
  * rust/routee-compass/src/plugin/input/input_json_extensions.rs   which InputField `get_grid_search` reads,
  * rust/routee-compass/src/plugin/input/default/grid_search/plugin.rs
        that the section comes from `input.get_grid_search()`, the text whose presence in the serialised section is the
        recursion guard (`.contains("..")`), which InputField's name is removed from the copy of the query, and the order
        of the two InputPluginFailed / UnexpectedQueryStructure exits,
  * rust/routee-compass-core/src/util/multiset.rs                   `impl From<&Vec<Vec<T>>> for MultiSet`: the expressions
        of `final_pos` and of the initial `pos` and which field each one initialises,
and writes <gen_dir>/GridSearchConsts.v.  The loops of `GridSearchPlugin::process` and `MultiSet::next` (mutable vectors,
indexed assignment, `break`) are outside the translated subset and stay hand-modelled (Model/GridSearch.v,
Model/MultiSet.v, tied by the streams of checks/c17.py).

The tie to the proofs: coq/Props/GenGridSearch.v proves that GS.grid_key is the generated name of the field the plugin reads
and removes and is the generated recursion-guard text, and that MS.from equals the generated constructor for ALL families of
sets; the lemmas are proof obligations of C17 (checks/c17.py).

The output is not trusted on faith: the `grid`, `gridset` and `mset` streams of checks/c17.py run the real plugin on sections that mention the key
at every depth, on empty axes and on every family shape, against Model/GridSearch.v over Model/MultiSet.v.

Deliberately narrow, FAILS CLOSED (TranslateError naming file:line).  Local names, white space, comments do not matter.
"""
import os
import sys

sys.path.insert(0, os.path.dirname(os.path.abspath(__file__)))
import rsparse as R  # noqa: E402
from rsparse import TranslateError  # noqa: E402

FIELD = "rust/routee-compass/src/plugin/input/input_field.rs"
EXT = "rust/routee-compass/src/plugin/input/input_json_extensions.rs"
PLUGIN = "rust/routee-compass/src/plugin/input/default/grid_search/plugin.rs"
MSET = "rust/routee-compass-core/src/util/multiset.rs"


def v(n):
    return "v_" + n


def find_all(e, pred, acc):
    if isinstance(e, tuple):
        if pred(e):
            acc.append(e)
        for x in e:
            find_all(x, pred, acc)
    elif isinstance(e, list):
        for x in e:
            find_all(x, pred, acc)


def parse_fields(f):
    variants, line = f.enum("InputField")
    params, ret, body, fl = f.fn("to_str", f.impl_range("InputField"))
    alias = {"InputField", "Self"}
    for s in body[1]:
        if s[0] == "use" and s[1] == ["InputField"]:
            alias.add(s[2])
        else:
            f.err(fl, "unrecognised statement in InputField::to_str")
    m = body[2]
    if not m or m[0] != "match" or m[1] != ("path", ["self"]):
        f.err(fl, "InputField::to_str is not `match self { .. }`")
    table, custom = [], False
    for pat, guard, val in m[2]:
        if guard is None and pat[0] == "ppath" and len(pat[1]) == 2 and pat[1][0] in alias and val[0] == "str":
            table.append((pat[1][1], val[1]))
        elif guard is None and pat[0] == "pts" and len(pat[1]) == 2 and pat[1][0] in alias and len(pat[2]) == 1 and pat[2][0][0] == "pid" \
                and val == ("path", [pat[2][0][1]]):
            custom = True      # Custom(field) => field
        else:
            f.err(fl, "unrecognised arm of InputField::to_str")
    if {x[0] for x in table} | ({"Custom"} if custom else set()) != {x[0] for x in variants} or len({x[0] for x in table}) != len(table):
        f.err(fl, "InputField::to_str does not list every variant once")
    return table


def field_of(e):
    """InputField::<V>.to_str() -> V"""
    if e[0] == "mcall" and e[2] == "to_str" and not e[3] and e[1][0] == "path" and len(e[1][1]) == 2 and e[1][1][0] == "InputField":
        return e[1][1][1]
    return None


def parse_plugin(fp, fx):
    # get_grid_search: self.get(InputField::<V>.to_str())
    params, ret, body, line = fx.fn("get_grid_search", fx.impl_range("serde_json :: Value", trait="InputJsonExtensions"))
    t = body[2]
    ok = not body[1] and t and t[0] == "mcall" and t[1] == ("path", ["self"]) and t[2] == "get" and len(t[3]) == 1 and field_of(t[3][0])
    if not ok:
        fx.err(line, "get_grid_search is not `self.get(InputField::<V>.to_str())`")
    section_field = field_of(t[3][0])
    params, ret, body, line = fp.fn("process", fp.impl_range("GridSearchPlugin", trait="InputPlugin"))
    inp = params[1][0]
    m = body[2]
    ok = (not body[1] and m and m[0] == "match" and m[1] == ("mcall", ("path", [inp]), "get_grid_search", []) and len(m[2]) == 2)
    if not ok:
        fp.err(line, "GridSearchPlugin::process is not `match %s.get_grid_search() { None => .., Some(..) => .. }`" % inp)
    none = [a for a in m[2] if a[0] == ("ppath", ["None"])]
    some = [a for a in m[2] if a[0][0] == "pts" and a[0][1] == ["Some"] and len(a[0][2]) == 1 and a[0][2][0][0] == "pid"]
    if len(none) != 1 or len(some) != 1 or none[0][2] != ("call", ("path", ["Ok"]), [("tuple", [])]):
        fp.err(line, "expected the arms `None => Ok(())` and `Some(section) => { .. }`")
    sec = some[0][0][2][0][1]
    blk = some[0][2]
    # the recursion guard: serde_json::to_string(section)...?.contains("<text>")
    hits = []
    find_all(blk, lambda e: e[0] == "mcall" and e[2] == "contains" and len(e[3]) == 1 and e[3][0][0] == "str"
             and "('path', ['serde_json', 'to_string'])" in repr(e[1]) and ("('path', ['%s'])" % sec) in repr(e[1]), hits)
    if len(hits) != 1:
        fp.err(line, "expected exactly one `serde_json::to_string(%s)..contains(\"..\")`" % sec)
    marker = hits[0][3][0][1]
    # the removed key
    hits = []
    find_all(blk, lambda e: e[0] == "mcall" and e[2] == "remove" and len(e[3]) == 1 and field_of(e[3][0]) is not None, hits)
    if len(hits) != 1:
        fp.err(line, "expected exactly one `<map>.remove(InputField::<V>.to_str())`")
    removed = field_of(hits[0][3][0])
    # the exits, in source order
    exits = []
    find_all(blk, lambda e: e[0] == "call" and e[1][0] == "path" and len(e[1][1]) == 2 and e[1][1][0] == "InputPluginError", exits)
    names = [e[1][1][1] for e in exits]
    return section_field, marker, removed, names


def parse_multiset(f):
    params, ret, body, line = f.fn("from", f.impl_range_generic("MultiSet", "From"))
    if len(params) != 1 or not params[0][1].endswith("Vec<Vec<T>>"):
        f.err(line, "MultiSet::from does not take a &Vec<Vec<T>>")
    sets = params[0][0]
    lets = {}
    for s in body[1]:
        if s[0] != "let" or s[1][0] != "pid" or s[4]:
            f.err(line, "unrecognised statement in MultiSet::from")
        lets[s[1][1]] = s[3]
    t = body[2]
    if not t or t[0] != "struct" or t[1] != ["MultiSet"]:
        f.err(line, "MultiSet::from does not end in a MultiSet literal")
    fields = dict(t[2])
    if fields.get("sets") != ("path", [sets]) or set(fields) != {"sets", "pos", "final_pos"}:
        f.err(line, "the MultiSet literal is not { sets, pos, final_pos }")
    out = {}
    for fld in ("pos", "final_pos"):
        e = fields[fld]
        if e[0] != "path" or len(e[1]) != 1 or e[1][0] not in lets:
            f.err(line, "field %s is not initialised from a local" % fld)
        out[fld] = lets[e[1][0]]

    def length(e):
        if e[0] == "mcall" and e[2] == "len" and not e[3] and e[1][0] == "path" and len(e[1][1]) == 1:
            return "(List.length %s)" % v(e[1][1][0])
        f.err(line, "unrecognised length expression")

    # final_pos
    e = out["final_pos"]
    ok = (e[0] == "mcall" and e[2] == "collect" and e[1][0] == "mcall" and e[1][2] == "map" and e[1][1] == ("mcall", ("path", [sets]), "iter", [])
          and len(e[1][3]) == 1 and e[1][3][0][0] == "closure" and len(e[1][3][0][1]) == 1 and e[1][3][0][1][0][0] == "pid")
    if ok:
        x = e[1][3][0][1][0][1]
        b = e[1][3][0][2]
        ok = (b[0] == "mcall" and b[2] == "saturating_sub" and len(b[3]) == 1 and b[3][0][0] == "num" and b[3][0][1].isdigit()
              and b[1] == ("mcall", ("path", [x]), "len", []))
    if not ok:
        f.err(line, "final_pos is not `sets.iter().map(|v| v.len().saturating_sub(<n>)).collect()`")
    final_pos = "map (fun %s => (List.length %s) - %s) %s" % (v(x), v(x), b[3][0][1], v(sets))
    # pos
    e = out["pos"]
    ok = (e[0] == "if" and e[3] is not None and e[1][0] == "mcall" and e[1][2] == "any" and e[1][1] == ("mcall", ("path", [sets]), "iter", [])
          and len(e[1][3]) == 1 and e[1][3][0][0] == "closure" and len(e[1][3][0][1]) == 1 and e[1][3][0][1][0][0] == "pid"
          and e[1][3][0][2] == ("mcall", ("path", [e[1][3][0][1][0][1]]), "is_empty", []))
    if not ok:
        f.err(line, "pos is not `if sets.iter().any(|v| v.is_empty()) { .. } else { .. }`")

    def optv(b):
        b = b[2] if b[0] == "block" and not b[1] else b
        if b == ("path", ["None"]):
            return "None"
        if b[0] == "call" and b[1] == ("path", ["Some"]) and len(b[2]) == 1 and b[2][0][0] == "macro" and b[2][0][1] == "vec":
            toks = b[2][0][2]
            kinds = [(t_.kind, t_.text) for t_ in toks]
            if len(kinds) == 7 and kinds[0][0] == "num" and kinds[0][1].isdigit() and kinds[1] == ("p", ";") and kinds[2] == ("id", sets) \
                    and [k[1] for k in kinds[3:]] == [".", "len", "(", ")"]:
                return "Some (repeat %s (List.length %s))" % (kinds[0][1], v(sets))
        f.err(line, "a branch of pos is neither None nor Some(vec![<n>; sets.len()])")
    y = e[1][3][0][1][0][1]
    pos = "if existsb (fun %s => is_empty %s) %s then %s else %s" % (v(y), v(y), v(sets), optv(e[2]), optv(e[3]))
    return sets, final_pos, pos


PREAMBLE = """(* GENERATED by translator/tr_gridsearch.py from
     %s
     %s
     %s
     %s
   -- do not edit.  Agreement with the hand-written models: Props/GenGridSearch.v. *)
From Coq Require Import List String Bool Arith.
Import ListNotations.
Open Scope string_scope.

Module GridSearchConsts.

(* <[T]>::is_empty *)
Definition is_empty {X : Type} (l : list X) : bool := match l with [] => true | _ :: _ => false end.

"""


def parse_all(repo):
    ff, fx, fp, fm = R.File(repo, FIELD), R.File(repo, EXT), R.File(repo, PLUGIN), R.File(repo, MSET)
    table = parse_fields(ff)
    section_field, marker, removed, exits = parse_plugin(fp, fx)
    sets, final_pos, pos = parse_multiset(fm)
    L = []
    L.append("(* input_field.rs: InputField::to_str, unit variants (Custom(s) is s itself) *)")
    L.append("Definition input_field_to_str : list (string * string) :=\n  [%s].\n" % ";\n   ".join('("%s", %s)' % (a, R.coq_string(b)) for a, b in table))
    L.append("Fixpoint lookup (t : list (string * string)) (k : string) : option string :=\n  match t with [] => None | (k', x) :: r => if String.eqb k' k then Some x else lookup r k end.\n")
    L.append("(* input_json_extensions.rs: get_grid_search reads self.get(InputField::<this>.to_str()) *)")
    L.append('Definition grid_search_section_field : string := "%s".' % section_field)
    L.append("(* grid_search/plugin.rs: the serialised section must not contain this text; this InputField's name is removed from the copy *)")
    L.append("Definition grid_search_recursion_marker : string := %s." % R.coq_string(marker))
    L.append('Definition grid_search_removed_field : string := "%s".' % removed)
    L.append("(* the InputPluginError variants constructed in the Some arm, in source order *)")
    L.append("Definition grid_search_error_exits : list string := [%s].\n" % "; ".join('"%s"' % x for x in exits))
    L.append("(* multiset.rs: impl From<&Vec<Vec<T>>> for MultiSet: MultiSet { sets, pos, final_pos } *)")
    L.append("Definition multiset_from_final_pos {X : Type} (%s : list (list X)) : list nat :=\n  %s." % (v(sets), final_pos))
    L.append("Definition multiset_from_pos {X : Type} (%s : list (list X)) : option (list nat) :=\n  %s." % (v(sets), pos))
    return {"files": [ff, fx, fp, fm], "body": "\n".join(L), "marker": marker, "n": len(table), "exits": exits}


def render(p):
    return PREAMBLE % (FIELD, EXT, PLUGIN, MSET) + p["body"] + "\n\nEnd GridSearchConsts.\n"


def generate(repo, gen_dir):
    p = R.fail_closed(parse_all, repo, ", ".join((FIELD, EXT, PLUGIN, MSET)))
    dg, per = R.digest(p["files"])
    changed = R.write_if_changed(os.path.join(gen_dir, "GridSearchConsts.v"), render(p))
    return {"ok": True, "msg": "GridSearchConsts.v: %d field names, recursion marker %r, exits %s, MultiSet::from%s"
            % (p["n"], p["marker"], "/".join(p["exits"]), " (rewritten)" if changed else " (unchanged)"),
            "digest": dg, "files": per, "changed": changed}


if __name__ == "__main__":
    r = generate(sys.argv[1] if len(sys.argv) > 1 else "/repo", sys.argv[2] if len(sys.argv) > 2 else "/tmp/tr3/gen")
    print(r["msg"])
