"""Translator for the coordinate range checks of the haversine helper and the tolerance tests of the two map-matching
input plugins (property C16).

Reads
  * rust/routee-compass-core/src/util/geo/haversine.rs
        - `APPROX_EARTH_RADIUS_M` (recorded; the great-circle VALUE is an oracle in the model, no theorem reads it),
        - the guards of `haversine_distance_meters`: `if !(lo..=hi).contains(&<param>) { return Err(..); }`, in order,
          and that the rest of the body is a let-chain of f32 operations (their names are recorded),
        - `coord_distance_meters`: which coordinate fields are passed for which parameter,
  * rust/routee-compass/src/plugin/input/default/vertex_rtree/plugin.rs
        - `RTreePlugin::new`: the `match (tolerance_distance, distance_unit)` table that builds the tolerance,
        - `validate_tolerance`: the unit conversion (from, to) and the comparison that rejects a match,
  * rust/routee-compass/src/plugin/input/default/edge_rtree/edge_rtree_input_plugin.rs
        - `EdgeRtreeInputPlugin::new`: the same table,
        - `within_tolerance`: the unit conversion (from, to) and the comparison that accepts a match,
and writes <gen_dir>/Haversine.v.  Unit names are emitted as `unit_of_name "<Variant>"`, the conversion function, the
unit type and BASE_DISTANCE_UNIT are Section variables (instantiated with Model/Units.v, itself fed by Gen/UnitTables.v).

The tie to the proofs: coq/Props/GenHaversine.v proves, for ALL inputs, that MM.hav, MM.mk_tolerance,
MM.validate_tolerance and MM.within_tolerance of coq/Model/MapMatch.v equal the generated definitions; the lemmas are
proof obligations of C16 (checks/c16.py).  A changed bound, `..=` vs `..`, comparison operator, operand order,
conversion direction or table row changes Haversine.v and breaks them.

The output is not trusted on faith: the `vertex` and `edge` streams of checks/c16.py execute coq/Model/MapMatch.v
(proved equal to these definitions) against the real plugins, including the boundary families "distance exactly at the
tolerance", "coordinate outside the haversine range" and every (tolerance, unit) combination.

Deliberately narrow, FAILS CLOSED (TranslateError naming file:line).  Local names, white space, comments do not matter.
"""
import os
import sys

sys.path.insert(0, os.path.dirname(os.path.abspath(__file__)))
import rsparse as R  # noqa: E402
from rsparse import TranslateError  # noqa: E402

HAV = "rust/routee-compass-core/src/util/geo/haversine.rs"
VTX = "rust/routee-compass/src/plugin/input/default/vertex_rtree/plugin.rs"
EDG = "rust/routee-compass/src/plugin/input/default/edge_rtree/edge_rtree_input_plugin.rs"
F32_OPS = {"to_radians", "sin", "cos", "asin", "sqrt", "powi", "into", "atan2", "tan", "acos", "abs", "min", "max", "atan"}


def v(name):
    return "v_" + name


def strip_ref(e):
    while e[0] == "unary" and e[1] in ("&", "*"):
        e = e[2]
    return e


def qlit(f, e):
    """a (possibly negated) float literal as a Q term"""
    neg = False
    while e[0] == "unary" and e[1] == "-":
        neg, e = not neg, e[2]
    if e[0] != "num":
        raise TranslateError("%s: range bound is not a literal: %r" % (f.path, e))
    m, x = R.float_literal(e[1], f.path)
    return "(Qlit %s %s)" % (R.coq_z(-m if neg else m), R.coq_z(x)), (-m if neg else m, x)


def collect_ops(e, out):
    if isinstance(e, tuple):
        if e and e[0] == "mcall":
            collect_ops(e[1], out)
            out.append(e[2])
            for a in e[3]:
                collect_ops(a, out)
            return
        if e and e[0] == "bin":
            collect_ops(e[2], out)
            collect_ops(e[3], out)
            out.append(e[1])
            return
        for x in e[1:]:
            collect_ops(x, out)
    elif isinstance(e, list):
        for x in e:
            collect_ops(x, out)


def parse_haversine(f):
    ty, e, line = f.const("APPROX_EARTH_RADIUS_M")
    if ty != "f32" or e[0] != "num":
        f.err(line, "APPROX_EARTH_RADIUS_M is not an f32 literal")
    radius = R.float_literal(e[1], f.path)
    params, ret, body, line = f.fn("haversine_distance_meters")
    names = [pn for pn, pt in params]
    if [pt for pn, pt in params] != ["f32"] * 4 or ret != "Result<Distance,String>":
        f.err(line, "haversine_distance_meters is not fn(f32, f32, f32, f32) -> Result<Distance, String>")
    checks, i = [], 0
    stmts = body[1]
    while i < len(stmts) and stmts[i][0] == "expr" and stmts[i][1][0] == "if":
        c = stmts[i][1]
        ok = (c[3] is None and c[1][0] == "unary" and c[1][1] == "!" and c[1][2][0] == "mcall" and c[1][2][2] == "contains"
              and len(c[1][2][3]) == 1 and c[1][2][1][0] == "range" and c[1][2][1][1] is not None and c[1][2][1][2] is not None)
        if ok:
            arg = strip_ref(c[1][2][3][0])
            ok = arg[0] == "path" and len(arg[1]) == 1 and arg[1][0] in names
        if ok:
            th = c[2]
            ok = (len(th[1]) == 1 and th[2] is None and th[1][0][0] == "expr" and th[1][0][1][0] == "return"
                  and th[1][0][1][1] is not None and th[1][0][1][1][0] == "call" and th[1][0][1][1][1] == ("path", ["Err"]))
        if not ok:
            f.err(line, "guard %d of haversine_distance_meters is not `if !(lo..=hi).contains(&<param>) { return Err(..); }`" % (i + 1))
        rg = c[1][2][1]
        checks.append((arg[1][0], qlit(f, rg[1]), qlit(f, rg[2]), rg[3]))
        i += 1
    if not checks:
        f.err(line, "haversine_distance_meters has no range guard")
    ops = []
    for s in stmts[i:]:
        if s[0] != "let" or s[1][0] != "pid" or s[4]:
            f.err(line, "after the guards haversine_distance_meters must be a chain of `let`s")
        collect_ops(s[3], ops)
    tail = body[2]
    if not (tail and tail[0] == "call" and tail[1] == ("path", ["Ok"])):
        f.err(line, "haversine_distance_meters does not end in Ok(..)")
    collect_ops(tail[2], ops)
    for o in ops:
        if o not in F32_OPS and o not in ("+", "-", "*", "/"):
            f.err(line, "unexpected operation `%s` in the haversine formula" % o)
    # coord_distance_meters: haversine_distance_meters(src.x, src.y, dst.x, dst.y)?
    cparams, cret, cbody, cline = f.fn("coord_distance_meters")
    if [pt for _, pt in cparams] != ["&Coord<f32>", "&Coord<f32>"]:
        f.err(cline, "coord_distance_meters is not fn(&Coord<f32>, &Coord<f32>)")
    cs = cbody[1]
    ok = (len(cs) == 1 and cs[0][0] == "let" and cs[0][1][0] == "pid" and cs[0][3][0] == "try" and cs[0][3][1][0] == "call"
          and cs[0][3][1][1] == ("path", ["haversine_distance_meters"]) and len(cs[0][3][1][2]) == 4
          and cbody[2] == ("call", ("path", ["Ok"]), [("path", [cs[0][1][1]])]))
    if not ok:
        f.err(cline, "coord_distance_meters is not `let d = haversine_distance_meters(a.x, a.y, b.x, b.y)?; Ok(d)`")
    cnames = [pn for pn, _ in cparams]
    args = []
    for a in cs[0][3][1][2]:
        if not (a[0] == "field" and a[2] in ("x", "y") and a[1][0] == "path" and len(a[1][1]) == 1 and a[1][1][0] in cnames):
            f.err(cline, "argument of haversine_distance_meters is not `<coord>.x` / `<coord>.y`")
        args.append("(%s %s)" % ("fst" if a[2] == "x" else "snd", v(a[1][1][0])))
    return {"radius": radius, "names": names, "checks": checks, "ops": ops, "cnames": cnames, "cargs": args}


class Tol:
    def __init__(self, f, what):
        self.f, self.what = f, what

    def err(self, msg):
        raise TranslateError("%s: %s: %s" % (self.f.path, self.what, msg))

    def unit(self, e, env):
        e = strip_ref(e)
        if e[0] == "path" and len(e[1]) == 2 and e[1][0] == "DistanceUnit":
            return '(unit_of_name "%s")' % e[1][1]
        if e == ("path", ["BASE_DISTANCE_UNIT"]):
            return "base_distance_unit"
        if e[0] == "path" and len(e[1]) == 1 and e[1][0] in env and env[e[1][0]][1] == "unit":
            return env[e[1][0]][0]
        self.err("unrecognised distance unit %r" % (e,))

    def num(self, e, env):
        e = strip_ref(e)
        if e[0] == "path" and len(e[1]) == 1 and e[1][0] in env and env[e[1][0]][1] == "num":
            return env[e[1][0]][0]
        if e[0] == "mcall" and e[2] == "convert" and len(e[3]) == 2:
            return "(convert %s %s %s)" % (self.unit(e[1], env), self.unit(e[3][1], env), self.num(e[3][0], env))
        self.err("unrecognised distance expression %r" % (e,))

    def cmp(self, e, env):
        if e[0] == "unary" and e[1] == "!":
            return "(negb %s)" % self.cmp(e[2], env)
        if e[0] == "bin" and e[1] in ("<", "<=", ">", ">="):
            a, b = self.num(e[2], env), self.num(e[3], env)
            # on Distance (a total order) `a >= b` is `b <= a`, `a > b` is `b < a`
            return {"<=": "(leb %s %s)" % (a, b), "<": "(ltb %s %s)" % (a, b),
                    ">=": "(leb %s %s)" % (b, a), ">": "(ltb %s %s)" % (b, a)}[e[1]]
        self.err("unrecognised comparison %r" % (e,))

    def lets(self, stmts, env, skip=0):
        out = []
        for s in stmts[skip:]:
            if s[0] != "let" or s[1][0] != "pid" or s[4] or s[3] is None:
                self.err("unrecognised statement %r" % (s if len(repr(s)) < 160 else repr(s)[:160],))
            out.append("let %s := %s in " % (v(s[1][1]), self.num(s[3], env)))
            env[s[1][1]] = (v(s[1][1]), "num")
        return "".join(out)


def some_pair_pattern(pat):
    """Some((a, b)) -> (a, b) names"""
    if pat[0] == "pts" and pat[1] == ["Some"] and len(pat[2]) == 1 and pat[2][0][0] == "ptuple" and len(pat[2][0][1]) == 2 \
            and all(p[0] == "pid" for p in pat[2][0][1]):
        return pat[2][0][1][0][1], pat[2][0][1][1][1]
    return None


def parse_validate_tolerance(f):
    params, ret, body, line = f.fn("validate_tolerance")
    t = Tol(f, "fn validate_tolerance (line %d)" % line)
    if [pt for _, pt in params] != ["&Coord<f32>", "&Coord<f32>", "&Option<(Distance,DistanceUnit)>"] or ret != "Result<(),InputPluginError>":
        t.err("unexpected signature")
    (src, _), (dst, _), (tol, _) = params
    m = body[2]
    if body[1] or not m or m[0] != "match" or m[1] != ("path", [tol]) or len(m[2]) != 2:
        t.err("the body is not `match %s { Some((t, u)) => .., None => .. }`" % tol)
    some = none = None
    for pat, guard, b in m[2]:
        if guard is not None:
            t.err("match guard")
        if some_pair_pattern(pat):
            some = (some_pair_pattern(pat), b)
        elif pat == ("ppath", ["None"]):
            none = b
    if not some or none != ("call", ("path", ["Ok"]), [("tuple", [])]):
        t.err("expected the arms `Some((t, u)) => { .. }` and `None => Ok(())`")
    (tn, un), b = some
    if b[0] != "block" or len(b[1]) < 1 or b[2] is None or b[2][0] != "if" or b[2][3] is None:
        t.err("unrecognised `Some` arm")
    # let <dm> = haversine::coord_distance_meters(src, dst).map_err(InputPluginError::InputPluginFailed)?;
    s0 = b[1][0]
    want = ("try", ("mcall", ("call", ("path", ["haversine", "coord_distance_meters"]), [("path", [src]), ("path", [dst])]), "map_err",
                    [("path", ["InputPluginError", "InputPluginFailed"])]))
    if not (s0[0] == "let" and s0[1][0] == "pid" and s0[3] == want):
        t.err("the first statement must be `let <m> = haversine::coord_distance_meters(%s, %s).map_err(InputPluginError::InputPluginFailed)?;`" % (src, dst))
    env = {tn: (v(tn), "num"), un: (v(un), "unit"), s0[1][1]: (v("distance_meters"), "num")}
    lets = t.lets(b[1], env, skip=1)
    cond = t.cmp(b[2][1], env)

    def kind(blk):
        x = blk[2] if blk[0] == "block" and not blk[1] else None
        if x == ("call", ("path", ["Ok"]), [("tuple", [])]):
            return "ok"
        if x and x[0] == "call" and x[1] == ("path", ["Err"]) and "InputPluginFailed" in repr(x):
            return "err"
        t.err("a branch of the tolerance test is neither Ok(()) nor Err(InputPluginFailed(..))")
    k1, k2 = kind(b[2][2]), kind(b[2][3])
    if {k1, k2} != {"ok", "err"}:
        t.err("the tolerance test does not decide between Ok(()) and Err")
    rejects = cond if k1 == "err" else "(negb %s)" % cond
    return ("  (* vertex_rtree/plugin.rs: fn validate_tolerance, the `Some((t, u))` arm: true = Err(InputPluginFailed);\n"
            "     the `None` arm is Ok(()); v_distance_meters is the value of haversine::coord_distance_meters(src, dst)? *)\n"
            "  Definition validate_tolerance_rejects (%s : N) (%s : U) (v_distance_meters : N) : bool :=\n    %s%s.\n" % (v(tn), v(un), lets, rejects))


def parse_within_tolerance(f):
    params, ret, body, line = f.fn("within_tolerance")
    t = Tol(f, "fn within_tolerance (line %d)" % line)
    if [pt for _, pt in params] != ["Option<(Distance,DistanceUnit)>", "&Distance"] or ret != "bool":
        t.err("unexpected signature")
    (tol, _), (dm, _) = params
    m = body[2]
    if body[1] or not m or m[0] != "match" or m[1] != ("path", [tol]) or len(m[2]) != 2:
        t.err("the body is not `match %s { None => .., Some((t, u)) => .. }`" % tol)
    arms = []
    for pat, guard, b in m[2]:
        if guard is not None:
            t.err("match guard")
        if pat == ("ppath", ["None"]):
            if b[0] != "bool":
                t.err("the `None` arm is not a boolean literal")
            arms.append("    | None => %s" % ("true" if b[1] else "false"))
        elif some_pair_pattern(pat):
            tn, un = some_pair_pattern(pat)
            env = {dm: (v(dm), "num"), tn: (v(tn), "num"), un: (v(un), "unit")}
            if b[0] != "block" or b[2] is None:
                t.err("unrecognised `Some` arm")
            lets = t.lets(b[1], env)
            arms.append("    | Some (%s, %s) => %s%s" % (v(tn), v(un), lets, t.cmp(b[2], env)))
        else:
            t.err("unrecognised arm pattern")
    if len(arms) != 2 or len({a.split("=>")[0].strip()[:6] for a in arms}) != 2:
        t.err("expected one `None` and one `Some((t, u))` arm")
    return ("  (* edge_rtree/edge_rtree_input_plugin.rs: fn within_tolerance *)\n"
            "  Definition within_tolerance (%s : option (N * U)) (%s : N) : bool :=\n    match %s with\n%s\n    end.\n"
            % (v(tol), v(dm), v(tol), "\n".join(arms)))


def parse_mk_tolerance(f, ty, defname):
    rng = f.impl_range(ty)
    params, ret, body, line = f.fn("new", rng)
    t = Tol(f, "%s::new (line %d)" % (ty, line))
    pt = dict(params)
    hits = [s for s in body[1] if s[0] == "let" and s[1][0] == "pid" and s[3] is not None and s[3][0] == "match" and s[3][1][0] == "tuple"]
    if len(hits) != 1:
        t.err("expected exactly one `let <tolerance> = match (<distance>, <unit>) { .. };`")
    s = hits[0]
    scrut = s[3][1][1]
    if len(scrut) != 2 or any(x[0] != "path" or len(x[1]) != 1 for x in scrut):
        t.err("the scrutinee is not a pair of parameters")
    a, b = scrut[0][1][0], scrut[1][1][0]
    if pt.get(a) != "Option<Distance>" or pt.get(b) != "Option<DistanceUnit>":
        t.err("the scrutinee is not (Option<Distance>, Option<DistanceUnit>)")
    # the constructed plugin stores that value as its `tolerance`
    tail = body[2]
    ok = (tail and tail[0] == "call" and tail[1] == ("path", ["Ok"]) and tail[2][0][0] == "struct"
          and dict(tail[2][0][2]).get("tolerance") == ("path", [s[1][1]]))
    if not ok:
        t.err("the constructed value does not store `%s` as its `tolerance` field" % s[1][1])
    arms = []
    for pat, guard, val in s[3][2]:
        if guard is not None or pat[0] != "ptuple" or len(pat[1]) != 2:
            t.err("unrecognised arm pattern")
        env, ps = {}, []
        for p, tag in zip(pat[1], ("num", "unit")):
            if p == ("ppath", ["None"]):
                ps.append("None")
            elif p[0] == "pts" and p[1] == ["Some"] and len(p[2]) == 1 and p[2][0][0] == "pid":
                env[p[2][0][1]] = (v(p[2][0][1]), tag)
                ps.append("Some %s" % v(p[2][0][1]))
            elif p[0] == "pts" and p[1] == ["Some"] and len(p[2]) == 1 and p[2][0][0] == "pwild":
                ps.append("Some _")
            elif p[0] == "pwild":
                ps.append("_")
            else:
                t.err("unrecognised option pattern %r" % (p,))
        if val == ("path", ["None"]):
            out = "None"
        elif val[0] == "call" and val[1] == ("path", ["Some"]) and len(val[2]) == 1 and val[2][0][0] == "tuple" and len(val[2][0][1]) == 2:
            out = "Some (%s, %s)" % (t.num(val[2][0][1][0], env), t.unit(val[2][0][1][1], env))
        else:
            t.err("unrecognised arm value %r" % (val,))
        arms.append("    | %s => %s" % (", ".join(ps), out))
    return ("  (* %s::new: the `tolerance` field *)\n  Definition %s (%s : option N) (%s : option U) : option (N * U) :=\n    match %s, %s with\n%s\n    end.\n"
            % (ty, defname, v(a), v(b), v(a), v(b), "\n".join(arms)))


PREAMBLE = """(* GENERATED by translator/tr_haversine.py from
     %s
     %s
     %s
   -- do not edit.  Agreement with the hand-written model: Props/GenHaversine.v. *)
From Coq Require Import ZArith QArith String List Bool.
From RC Require Import Base.Num.
Import ListNotations.
Open Scope string_scope.

Module Haversine.

(* ---- fixed vocabulary (what the translator assumes about std, not derived from the source) ---- *)
(* RangeInclusive::contains / Range::contains on exactly represented coordinates *)
Definition range_contains_Q (inclusive : bool) (lo hi x : Q) : bool :=
  Qle_bool lo x && (if inclusive then Qle_bool x hi else negb (Qle_bool hi x)).

(* ---- generated from the source ---- *)
"""


def parse_all(repo):
    fh, fv, fe = R.File(repo, HAV), R.File(repo, VTX), R.File(repo, EDG)
    h = parse_haversine(fh)
    L = []
    L.append("(* haversine.rs: APPROX_EARTH_RADIUS_M as (mantissa, decimal exponent); recorded only: the great-circle value is an\n"
             "   oracle of the model (Model/MapMatch.v, parameter gc), no theorem reads this constant *)")
    L.append("Definition APPROX_EARTH_RADIUS_M : Z * Z := (%s%%Z, %s%%Z)." % (R.coq_z(h["radius"][0]), R.coq_z(h["radius"][1])))
    L.append("(* the f32 operations of the formula after the guards, in evaluation order (recorded only) *)")
    L.append("Definition formula_ops : list string := [%s].\n" % "; ".join('"%s"' % o for o in h["ops"]))
    L.append("(* haversine.rs: the guards of fn haversine_distance_meters, in source order: false = Err(String) *)")
    conj = " && ".join("range_contains_Q %s %s %s %s" % ("true" if incl else "false", lo[0], hi[0], v(pn)) for pn, lo, hi, incl in h["checks"])
    L.append("Definition haversine_args_ok %s: bool :=\n  %s.\n" % ("".join("(%s : Q) " % v(n) for n in h["names"]), conj))
    L.append("(* haversine.rs: fn coord_distance_meters passes these fields (x = fst, y = snd) *)")
    L.append("Definition coord_args_ok (%s %s : Q * Q) : bool :=\n  haversine_args_ok %s.\n" % (v(h["cnames"][0]), v(h["cnames"][1]), " ".join(h["cargs"])))
    L.append("Section Tolerance.")
    L.append("  Variable N : Num.")
    L.append("  Variable U : Type.                       (* DistanceUnit *)")
    L.append("  Variable unit_of_name : string -> U.     (* DistanceUnit::<Variant> *)")
    L.append("  Variable base_distance_unit : U.         (* BASE_DISTANCE_UNIT *)")
    L.append("  Variable convert : U -> U -> N -> N.     (* from.convert(&value, &to) *)\n")
    L.append(parse_mk_tolerance(fv, "RTreePlugin", "vertex_mk_tolerance"))
    L.append(parse_mk_tolerance(fe, "EdgeRtreeInputPlugin", "edge_mk_tolerance"))
    L.append(parse_validate_tolerance(fv))
    L.append(parse_within_tolerance(fe))
    L.append("End Tolerance.\n")
    return {"files": [fh, fv, fe], "body": "\n".join(L), "h": h}


def render(p):
    return PREAMBLE % (HAV, VTX, EDG) + p["body"] + "\nEnd Haversine.\n"


def generate(repo, gen_dir):
    p = R.fail_closed(parse_all, repo, ", ".join((HAV, VTX, EDG)))      # raises TranslateError on anything unrecognised
    dg, per = R.digest(p["files"])
    changed = R.write_if_changed(os.path.join(gen_dir, "Haversine.v"), render(p))
    h = p["h"]
    return {"ok": True,
            "msg": "Haversine.v: radius %d*10^%d, guards %s; mk_tolerance x2, validate_tolerance, within_tolerance%s"
                   % (h["radius"][0], h["radius"][1],
                      ", ".join("%s in %d%s%d" % (pn, lo[1][0], "..=" if incl else "..", hi[1][0]) for pn, lo, hi, incl in h["checks"]),
                      " (rewritten)" if changed else " (unchanged)"),
            "digest": dg, "files": per, "changed": changed}


if __name__ == "__main__":
    r = generate(sys.argv[1] if len(sys.argv) > 1 else "/repo", sys.argv[2] if len(sys.argv) > 2 else "/tmp/tr2/gen")
    print(r["msg"])
