"""Translator for the dispatch of the traversal output formats (property C20).

Reads <repo>/rust/routee-compass/src/plugin/output/default/traversal/traversal_output_format.rs:
  * `enum TraversalOutputFormat` (the five variants),
  * `generate_route_output` and `generate_tree_output`: per variant which geometry / record operation of traversal_ops.rs is
    called on (route | tree, geoms), what is done with its result (`wkt_string()`, wrapping into `geo::Geometry::LineString` /
    `MultiLineString` and `geometry_to_wkb_string`, `serde_json::to_value`, the edge-id projection) and how the result is
    packed into a JSON value (`Value::String`, `json![..]`),
and writes <gen_dir>/TraversalOutput.v: the inductive type and the two functions over the outcome monad.  Everything the
two functions call is a Section variable (the operations of traversal_ops.rs, the wkt / wkb / serde printers and the JSON
constructors), so the generated text is exactly the dispatch: which operation, in which order, packed how.

The tie to the proofs: coq/Props/GenOutputFormat.v proves, for ALL routes, trees and geometry tables, that
OUT.generate_route_output and OUT.generate_tree_output of coq/Model/Output.v equal the generated functions under the model's
reading of the operations; the lemmas are proof obligations of C20 (checks/c20.py).

The output is not trusted on faith: the `output` stream of checks/c20.py compares, for every format, what the real
TraversalOutputFormat produces (WKT / WKB text parsed back, JSON, GeoJSON, edge ids) with coq/Model/Output.v (proved equal
to these definitions), routes and trees, missing geometry rows included.

Deliberately narrow, FAILS CLOSED (TranslateError naming file:line).  Local names, white space, comments do not matter.
"""
import os
import sys

sys.path.insert(0, os.path.dirname(os.path.abspath(__file__)))
import rsparse as R  # noqa: E402
from rsparse import TranslateError  # noqa: E402
from rsmonad import Monadic, v  # noqa: E402

SRC = "rust/routee-compass/src/plugin/output/default/traversal/traversal_output_format.rs"
ENUM = "TraversalOutputFormat"
OPS = {"create_route_linestring": (("route", "geoms"), "ls"), "create_tree_multilinestring": (("tree", "geoms"), "mls"),
       "create_route_geojson": (("route", "geoms"), "json"), "create_tree_geojson": (("tree", "geoms"), "json")}
PARAM = {"&Vec<EdgeTraversal>": "route", "&[EdgeTraversal]": "route", "&[LineString<f32>]": "geoms",
         "&HashMap<VertexId,SearchTreeBranch>": "tree"}
COQ = {"route": "(list Trav)", "tree": "Tree", "geoms": "Geoms"}


class OF(Monadic):
    def prim(self, e, env, pre):
        k = e[0]
        if k == "mcall" and e[2] == "wkt_string" and not e[3]:
            t, tag = self.pure(e[1], env, pre)
            if tag not in ("ls", "mls"):
                self.err("wkt_string of a %s" % (tag,))
            return "(%s_wkt_string %s)" % (tag, t), "text"
        if k == "call" and e[1][0] == "path" and e[1][1][-2:] in (["Geometry", "LineString"], ["Geometry", "MultiLineString"]) and len(e[2]) == 1:
            t, tag = self.pure(e[2][0], env, pre)
            want = "ls" if e[1][1][-1] == "LineString" else "mls"
            if tag != want:
                self.err("Geometry::%s of a %s" % (e[1][1][-1], tag))
            return "(geometry_%s %s)" % ("linestring" if want == "ls" else "multilinestring", t), "geom"
        if k == "call" and e[1] == ("path", ["serde_json", "Value", "String"]) and len(e[2]) == 1:
            t, tag = self.pure(e[2][0], env, pre)
            if tag != "text":
                self.err("Value::String of a %s" % (tag,))
            return "(json_string %s)" % t, "json"
        if k == "macro" and e[1] in ("serde_json::json", "json") and len(e[2]) == 1 and e[2][0].kind == "id" and e[2][0].text in env:
            t, tag = env[e[2][0].text]
            if tag != "ids":
                self.err("json![..] of a %s" % (tag,))
            return "(json_ids %s)" % t, "json"
        # <route>.iter().map(|e| e.edge_id).collect()   /   <tree>.values().map(|b| b.edge_traversal.edge_id).collect()
        if k == "mcall" and e[2] == "collect" and not e[3] and e[1][0] == "mcall" and e[1][2] == "map" and len(e[1][3]) == 1 \
                and e[1][3][0][0] == "closure" and len(e[1][3][0][1]) == 1 and e[1][3][0][1][0][0] == "pid":
            x = e[1][3][0][1][0][1]
            src = e[1][1]
            body = e[1][3][0][2]
            if src[0] == "mcall" and src[2] == "iter" and not src[3]:
                t, tag = self.pure(src[1], env, pre)
                if tag == "route" and body == ("field", ("path", [x]), "edge_id"):
                    return "(map (fun %s => trav_edge_id %s) %s)" % (v(x), v(x), t), "ids"
            if src[0] == "mcall" and src[2] == "values" and not src[3]:
                t, tag = self.pure(src[1], env, pre)
                if tag == "tree" and body == ("field", ("field", ("path", [x]), "edge_traversal"), "edge_id"):
                    return "(map (fun %s => trav_edge_id (branch_edge_traversal %s)) (tree_values %s))" % (v(x), v(x), t), "ids"
            self.err("unrecognised edge-id projection")
        return None

    def comp_prim(self, e, env):
        k = e[0]
        if k == "call" and e[1][0] == "path" and len(e[1][1]) == 2 and e[1][1][0] == "ops" and e[1][1][1] in OPS:
            want, rtag = OPS[e[1][1][1]]
            pre = []
            args = [self.pure(a, env, pre) for a in e[2]]
            if pre or tuple(a[1] for a in args) != want:
                self.err("ops::%s of %s" % (e[1][1][1], [a[1] for a in args]))
            return "(%s %s)" % (e[1][1][1], " ".join(a[0] for a in args)), ("res", rtag)
        if k == "call" and e[1] == ("path", ["geometry_to_wkb_string"]) and len(e[2]) == 1:
            pre = []
            t, tag = self.pure(e[2][0], env, pre)
            if pre or tag != "geom":
                self.err("geometry_to_wkb_string of a %s" % (tag,))
            return "(geometry_to_wkb_string %s)" % t, ("res", "text")
        if k == "call" and e[1] == ("path", ["serde_json", "to_value"]) and len(e[2]) == 1:
            a = e[2][0]
            if a[0] == "path" and len(a[1]) == 1 and a[1][0] in env and env[a[1][0]][1] == "route":
                return "(route_to_value %s)" % env[a[1][0]][0], ("res", "json")
            if a[0] == "mcall" and a[2] == "collect" and not a[3] and a[1][0] == "mcall" and a[1][2] == "values" and not a[1][3] \
                    and a[1][1][0] == "path" and a[1][1][1][0] in env and env[a[1][1][1][0]][1] == "tree":
                return "(branches_to_value (tree_values %s))" % env[a[1][1][1][0]][0], ("res", "json")
            self.err("serde_json::to_value of something else than the route / the tree's values")
        return None


def compile_fn(f, variants, rng, fname, second):
    params, ret, body, line = f.fn(fname, rng)
    c = OF(f, "%s::%s (line %d)" % (ENUM, fname, line))
    tags = [PARAM.get(pt) for _, pt in params[1:]]
    if tags != [second, "geoms"] or ret != "Result<serde_json::Value,OutputPluginError>":
        c.err("expected (&self, <%s>, &[LineString<f32>]) -> Result<serde_json::Value, OutputPluginError>" % second)
    env = {pn: (v(pn), tag) for (pn, _), tag in zip(params[1:], tags)}
    m = body[2]
    if body[1] or not m or m[0] != "match" or m[1] != ("path", ["self"]):
        c.err("the body is not `match self { .. }`")
    names = [x[0] for x in variants]
    arms, seen = [], set()
    for pat, guard, val in m[2]:
        if guard is not None or pat[0] != "ppath" or len(pat[1]) != 2 or pat[1][0] not in (ENUM, "Self") or pat[1][1] not in names:
            c.err("unrecognised arm pattern %r" % (pat,))
        if pat[1][1] in seen:
            c.err("variant %s matched twice" % pat[1][1])
        seen.add(pat[1][1])
        t, tag = c.comp(val, dict(env))
        if tag != ("res", "json"):
            c.err("arm %s is a %s" % (pat[1][1], tag))
        arms.append("    | %s_%s => %s" % (ENUM, pat[1][1], t))
    if seen != set(names):
        c.err("variants not matched: %s" % ", ".join(sorted(set(names) - seen)))
    return ("  (* %s::%s *)\n  Definition %s (self : %s)%s : res J :=\n    match self with\n%s\n    end.\n"
            % (ENUM, fname, fname, ENUM, "".join(" (%s : %s)" % (v(pn), COQ[tag]) for (pn, _), tag in zip(params[1:], tags)), "\n".join(arms)))


PREAMBLE = """(* GENERATED by translator/tr_outputformat.py from %s -- do not edit.
   The dispatch of the five output formats; every operation it calls is a Section variable.  Rust locals `x` are `v_x`,
   hoisted fallible sub-expressions `r<n>_`.  Agreement with the hand-written model: Props/GenOutputFormat.v. *)
From Coq Require Import List String Bool.
From RC Require Import Base.Res.
Import ListNotations.

Module TraversalOutput.

"""


def parse_all(repo):
    f = R.File(repo, SRC)
    variants, line = f.enum(ENUM)
    if any(kind != "unit" for _, kind, _ in variants):
        f.err(line, "%s has a variant with fields" % ENUM)
    L = ["Inductive %s : Set := %s.\n" % (ENUM, " | ".join("%s_%s" % (ENUM, x[0]) for x in variants))]
    L.append("Section Fns.")
    L.append("  Variables Trav Branch Tree Geoms LS MLS Geom Text J : Type.")
    L.append("  (* routee_compass::plugin::output::default::traversal::traversal_ops *)")
    L.append("  Variable create_route_linestring : list Trav -> Geoms -> res LS.")
    L.append("  Variable create_tree_multilinestring : Tree -> Geoms -> res MLS.")
    L.append("  Variable create_route_geojson : list Trav -> Geoms -> res J.")
    L.append("  Variable create_tree_geojson : Tree -> Geoms -> res J.")
    L.append("  (* field projections, HashMap::values *)")
    L.append("  Variable trav_edge_id : Trav -> nat.")
    L.append("  Variable branch_edge_traversal : Branch -> Trav.")
    L.append("  Variable tree_values : Tree -> list Branch.")
    L.append("  (* wkt::ToWkt::wkt_string, geo::Geometry::{LineString, MultiLineString}, fn geometry_to_wkb_string *)")
    L.append("  Variable ls_wkt_string : LS -> Text.")
    L.append("  Variable mls_wkt_string : MLS -> Text.")
    L.append("  Variable geometry_linestring : LS -> Geom.")
    L.append("  Variable geometry_multilinestring : MLS -> Geom.")
    L.append("  Variable geometry_to_wkb_string : Geom -> res Text.")
    L.append("  (* serde_json::Value::String, json![<ids>], serde_json::to_value *)")
    L.append("  Variable json_string : Text -> J.")
    L.append("  Variable json_ids : list nat -> J.")
    L.append("  Variable route_to_value : list Trav -> res J.")
    L.append("  Variable branches_to_value : list Branch -> res J.")
    L.append("")
    rng = f.impl_range(ENUM)
    L.append(compile_fn(f, variants, rng, "generate_route_output", "route"))
    L.append(compile_fn(f, variants, rng, "generate_tree_output", "tree"))
    L.append("End Fns.")
    return {"files": [f], "body": "\n".join(L), "variants": [x[0] for x in variants]}


def render(p):
    return PREAMBLE % SRC + p["body"] + "\n\nEnd TraversalOutput.\n"


def generate(repo, gen_dir):
    p = R.fail_closed(parse_all, repo, SRC)
    dg, per = R.digest(p["files"])
    changed = R.write_if_changed(os.path.join(gen_dir, "TraversalOutput.v"), render(p))
    return {"ok": True, "msg": "TraversalOutput.v: %s {%s}; generate_route_output, generate_tree_output%s"
            % (ENUM, ", ".join(p["variants"]), " (rewritten)" if changed else " (unchanged)"),
            "digest": dg, "files": per, "changed": changed}


if __name__ == "__main__":
    r = generate(sys.argv[1] if len(sys.argv) > 1 else "/repo", sys.argv[2] if len(sys.argv) > 2 else "/tmp/tr3/gen")
    print(r["msg"])
