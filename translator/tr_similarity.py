"""Translator for the route similarity function of the k-shortest-paths drivers (property C13).

Reads <repo>/rust/routee-compass-core/src/algorithm/search/util/route_similarity_function.rs:
  * `enum RouteSimilarityFunction` (variants, fields),
  * `is_similar`: per variant the verdict (`false` for AcceptAll after fix a6c3014; the comparison operator and operand order
    of `similarity >= *threshold`),
  * `rank_similarity`: per variant the rank (the AcceptAll literal; which weighting is handed to `cos_similarity`: the unit
    weight literal, or the edge distance looked up in the graph),
  * `test_similarity`: `is_similar(rank_similarity(..)?)`,
  * `cos_similarity`: that both weight maps are collected from the routes through the weighting, that the numerator sums
    `a_dist * b_dist` over the union of the two key sets with a missing key read as the default, that each denominator sums
    `d * d` over its own map; the term expressions and the closing formula `numer / (denom_a.sqrt() * denom_b.sqrt())`,
and writes <gen_dir>/RouteSimilarity.v.  `f64::sqrt` is a Section variable (binary64 has it, the exact rationals do not: the
theorems about rationals decide the same comparison on squares, Ksp.cos_ge_Q); the sums over HashMap / HashSet iterators
(unspecified order) stay in the hand-written model (Ksp.cos_parts), restated over the generated term functions.

The tie to the proofs: coq/Props/GenSimilarity.v proves, for ALL inputs, every numeric record and every `sqrt`, that
Ksp.test_similarity with the literal comparison Ksp.cos_ge_num (whose binary64 instance Ksp.cos_ge_F is what runs next to the
code) equals the generated function, and that Ksp.cos_parts is the restatement over the generated terms; the lemmas are proof
obligations of C13 (checks/c13.py).

The output is not trusted on faith: the `sim` stream of checks/c13.py executes Ksp.test_similarity in
binary64 against the real RouteSimilarityFunction::test_similarity (thresholds hit exactly, empty and disjoint routes).

Deliberately narrow, FAILS CLOSED (TranslateError naming file:line).  Local names, white space, comments do not matter.
"""
import os
import sys

sys.path.insert(0, os.path.dirname(os.path.abspath(__file__)))
import rsparse as R  # noqa: E402
from rsparse import TranslateError  # noqa: E402

SRC = "rust/routee-compass-core/src/algorithm/search/util/route_similarity_function.rs"
ENUM = "RouteSimilarityFunction"


def v(n):
    return "v_" + n


class C:
    def __init__(self, f, what):
        self.f, self.what = f, what

    def err(self, msg):
        raise TranslateError("%s: %s: %s" % (self.f.path, self.what, msg))

    def num(self, e, env):
        k = e[0]
        if k == "path" and len(e[1]) == 1 and e[1][0] in env:
            return env[e[1][0]]
        if k == "unary" and e[1] in ("*", "&"):
            return self.num(e[2], env)
        if k == "num":
            if not R.is_float_literal(e[1]):
                self.err("integer literal `%s` where a float is expected" % e[1])
            m, x = R.float_literal(e[1], self.f.path)
            return "(lit %s %s)" % (R.coq_z(m), R.coq_z(x))
        if k == "bin" and e[1] in ("+", "-", "*", "/"):
            return "(%s %s %s)" % ({"+": "add", "-": "sub", "*": "mul", "/": "div"}[e[1]], self.num(e[2], env), self.num(e[3], env))
        if k == "mcall" and e[2] == "sqrt" and not e[3]:
            return "(sqrt %s)" % self.num(e[1], env)
        self.err("unrecognised f64 expression %r" % (e if len(repr(e)) < 160 else repr(e)[:160],))

    def cmp(self, e, env):
        if e[0] == "bool":
            return "true" if e[1] else "false"
        if e[0] == "block" and not e[1] and e[2] is not None:
            return self.cmp(e[2], env)
        if e[0] == "bin" and e[1] in (">=", ">", "<=", "<"):
            a, b = self.num(e[2], env), self.num(e[3], env)       # f64: the IEEE partial order
            return {">=": "(leb %s %s)" % (b, a), ">": "(ltb %s %s)" % (b, a), "<=": "(leb %s %s)" % (a, b), "<": "(ltb %s %s)" % (a, b)}[e[1]]
        self.err("unrecognised verdict %r" % (e,))


def arms_of(c, body, variants, who):
    m = body[2]
    if body[1] or not m or m[0] != "match" or m[1] != ("path", ["self"]):
        c.err("the body is not `match self { .. }`")
    vmap = {vn: fields for vn, kind, fields in variants}
    out, seen = [], set()
    for pat, guard, val in m[2]:
        if guard is not None or pat[0] not in ("ppath", "pstruct") or len(pat[1]) != 2 or pat[1][0] not in (ENUM, "Self") or pat[1][1] not in vmap:
            c.err("unrecognised arm pattern %r" % (pat[:2],))
        vn = pat[1][1]
        if vn in seen:
            c.err("variant %s matched twice" % vn)
        seen.add(vn)
        env, bs = {}, []
        given = dict(pat[2]) if pat[0] == "pstruct" else {}
        for fn_, ft in vmap[vn]:
            p = given.get(fn_, ("pwild",))
            if p[0] == "pid":
                env[p[1]] = v(p[1])
                bs.append(v(p[1]))
            elif p[0] == "pwild":
                bs.append("_")
            else:
                c.err("unrecognised field pattern")
        out.append((vn, bs, env, val))
    if seen != set(vmap):
        c.err("variants not matched: %s" % ", ".join(sorted(set(vmap) - seen)))
    return out


def parse_all(repo):
    f = R.File(repo, SRC)
    variants, line = f.enum(ENUM)
    L = ["Inductive %s (A : Type) : Type :=" % ENUM]
    for vn, kind, fields in variants:
        if kind == "tuple" or any(ft != "f64" for _, ft in fields):
            f.err(line, "variant %s: only unit variants and struct variants with f64 fields are translated" % vn)
        L.append("| %s_%s%s" % (ENUM, vn, "".join(" (%s : A)" % fn_ for fn_, _ in fields)))
    L[-1] += "."
    for vn, kind, fields in variants:
        L.append("Arguments %s_%s {A}%s." % (ENUM, vn, " _" * len(fields)))
    L.append("")
    L.append("Section Fns.")
    L.append("  Variable N : Num.")
    L.append("  Variable sqrt : N -> N.                                   (* f64::sqrt *)")
    L.append("  Variable edge_distance : nat -> res N.                    (* si.directed_graph.get_edge(id).map(|e| e.distance.as_f64()).map_err(SearchError::from) *)")
    L.append("  Variable cos_similarity : (nat -> res N) -> res N.        (* cos_similarity(a, b, <weighting>) for the two routes at hand *)")
    L.append("")
    rng = f.impl_range(ENUM)
    # ---- is_similar
    params, ret, body, fl = f.fn("is_similar", rng)
    c = C(f, "%s::is_similar (line %d)" % (ENUM, fl))
    if [pt for _, pt in params] != ["&self", "f64"] or ret != "bool":
        c.err("expected fn is_similar(&self, f64) -> bool")
    sim = params[1][0]
    arms = []
    for vn, bs, env, val in arms_of(c, body, variants, "is_similar"):
        env[sim] = v(sim)
        arms.append("    | %s_%s%s => %s" % (ENUM, vn, "".join(" " + b for b in bs), c.cmp(val, env)))
    L.append("  (* %s::is_similar *)\n  Definition is_similar (self : %s N) (%s : N) : bool :=\n    match self with\n%s\n    end.\n"
             % (ENUM, ENUM, v(sim), "\n".join(arms)))
    # ---- rank_similarity
    params, ret, body, fl = f.fn("rank_similarity", rng)
    c = C(f, "%s::rank_similarity (line %d)" % (ENUM, fl))
    if [pt for _, pt in params] != ["&self", "&[&EdgeTraversal]", "&[&EdgeTraversal]", "&SearchInstance"] or ret != "Result<f64,SearchError>":
        c.err("expected fn rank_similarity(&self, &[&EdgeTraversal], &[&EdgeTraversal], &SearchInstance) -> Result<f64, SearchError>")
    pa, pb, psi = params[1][0], params[2][0], params[3][0]
    arms = []
    for vn, bs, env, val in arms_of(c, body, variants, "rank_similarity"):
        if val[0] == "call" and val[1] == ("path", ["Ok"]) and len(val[2]) == 1:
            arms.append("    | %s_%s%s => Ok %s" % (ENUM, vn, "".join(" " + b for b in bs), c.num(val[2][0], {})))
            continue
        ok = (val[0] == "block" and len(val[1]) == 1 and val[1][0][0] == "let" and val[1][0][1][0] == "pid"
              and val[1][0][3][0] == "call" and val[1][0][3][1] == ("path", ["Box", "new"]) and len(val[1][0][3][2]) == 1
              and val[1][0][3][2][0][0] == "closure" and len(val[1][0][3][2][0][1]) == 1
              and val[2] == ("call", ("path", ["cos_similarity"]), [("path", [pa]), ("path", [pb]), ("path", [val[1][0][1][1]])]))
        if not ok:
            c.err("arm %s is neither `Ok(<literal>)` nor `let w = Box::new(|id| ..); cos_similarity(%s, %s, w)`" % (vn, pa, pb))
        clo = val[1][0][3][2][0]
        cb = clo[2]
        while cb[0] == "block" and not cb[1] and cb[2] is not None:
            cb = cb[2]
        if clo[1][0][0] == "pwild" and cb[0] == "call" and cb[1] == ("path", ["Ok"]) and len(cb[2]) == 1:
            w = "(fun _ => Ok %s)" % c.num(cb[2][0], {})
        elif clo[1][0][0] == "pid":
            eid = clo[1][0][1]
            want = ("mcall", ("mcall", ("mcall", ("field", ("path", [psi]), "directed_graph"), "get_edge", [("path", [eid])]), "map", None), "map_err",
                    [("path", ["SearchError", "from"])])
            ok = (cb[0] == "mcall" and cb[2] == "map_err" and cb[3] == want[3] and cb[1][0] == "mcall" and cb[1][2] == "map"
                  and cb[1][1] == want[1][1] and len(cb[1][3]) == 1 and cb[1][3][0][0] == "closure" and len(cb[1][3][0][1]) == 1
                  and cb[1][3][0][1][0][0] == "pid"
                  and cb[1][3][0][2] == ("mcall", ("field", ("path", [cb[1][3][0][1][0][1]]), "distance"), "as_f64", []))
            if not ok:
                c.err("the weighting of %s is not the edge distance looked up in the graph" % vn)
            w = "(fun %s => edge_distance %s)" % (v(eid), v(eid))
        else:
            c.err("unrecognised weighting closure in arm %s" % vn)
        arms.append("    | %s_%s%s => let %s := %s in cos_similarity %s"
                    % (ENUM, vn, "".join(" " + b for b in bs), v(val[1][0][1][1]), w, v(val[1][0][1][1])))
    L.append("  (* %s::rank_similarity *)\n  Definition rank_similarity (self : %s N) : res N :=\n    match self with\n%s\n    end.\n"
             % (ENUM, ENUM, "\n".join(arms)))
    # ---- test_similarity
    params, ret, body, fl = f.fn("test_similarity", rng)
    c = C(f, "%s::test_similarity (line %d)" % (ENUM, fl))
    names = [pn for pn, _ in params[1:]]
    ok = (len(body[1]) == 1 and body[1][0][0] == "let" and body[1][0][1][0] == "pid"
          and body[1][0][3] == ("try", ("mcall", ("path", ["self"]), "rank_similarity", [("path", [n]) for n in names]))
          and body[2] == ("call", ("path", ["Ok"]), [("mcall", ("path", ["self"]), "is_similar", [("path", [body[1][0][1][1]])])]))
    if not ok:
        c.err("the body is not `let s = self.rank_similarity(..)?; Ok(self.is_similar(s))`")
    s_ = v(body[1][0][1][1])
    L.append("  (* %s::test_similarity *)\n  Definition test_similarity (self : %s N) : res bool :=\n    do %s <- rank_similarity self; Ok (is_similar self %s).\n"
             % (ENUM, ENUM, s_, s_))
    # ---- cos_similarity
    params, ret, body, fl = f.fn("cos_similarity")
    c = C(f, "fn cos_similarity (line %d)" % fl)
    if len(params) != 3 or ret != "Result<f64,SearchError>":
        c.err("expected fn cos_similarity(a, b, dist_fn) -> Result<f64, SearchError>")
    ra, rb, df = [pn for pn, _ in params]
    st = body[1]
    if len(st) != 7 or any(s[0] != "let" or s[1][0] != "pid" or s[4] for s in st) or body[2] != ("call", ("path", ["Ok"]), [("path", [st[6][1][1]])]):
        c.err("expected seven `let`s (two weight maps, numerator, two denominators, their product of roots, the quotient) and Ok(<quotient>)")

    def weight_map(s, route):
        want = ("try", ("mcall", ("mcall", ("mcall", ("path", [route]), "iter", []), "map", None), "collect", []))
        e = s[3]
        ok = (e[0] == "try" and e[1][0] == "mcall" and e[1][2] == "collect" and e[1][1][0] == "mcall" and e[1][1][2] == "map"
              and e[1][1][1] == want[1][1][1] and len(e[1][1][3]) == 1 and e[1][1][3][0][0] == "closure" and len(e[1][1][3][0][1]) == 1
              and e[1][1][3][0][1][0][0] == "pid")
        if ok:
            x = e[1][1][3][0][1][0][1]
            b = e[1][1][3][0][2]
            ok = (b[0] == "mcall" and b[2] == "map" and b[1] == ("call", ("path", [df]), [("unary", "&", ("field", ("path", [x]), "edge_id"))])
                  and len(b[3]) == 1 and b[3][0][0] == "closure" and len(b[3][0][1]) == 1 and b[3][0][1][0][0] == "pid"
                  and b[3][0][2] == ("tuple", [("field", ("path", [x]), "edge_id"), ("path", [b[3][0][1][0][1]])]))
        if not ok:
            c.err("`%s` is not the map edge id -> weight collected from route `%s` through the weighting" % (s[1][1], route))
        return s[1][1]
    am, bm = weight_map(st[0], ra), weight_map(st[1], rb)
    # numerator: union of the key sets, missing key = default
    e = st[2][3]
    ok = (e[0] == "mcall" and e[2] == "sum" and e[1][0] == "mcall" and e[1][2] == "map" and len(e[1][3]) == 1 and e[1][3][0][0] == "closure"
          and e[1][1] == ("mcall", ("mcall", ("mcall", ("path", [am]), "keys", []), "collect", []), "union",
                          [("unary", "&", ("mcall", ("mcall", ("path", [bm]), "keys", []), "collect", []))]))
    if not ok:
        c.err("the numerator is not a sum over the union of the key sets of the two maps")
    clo = e[1][3][0]
    if len(clo[1]) != 1 or clo[1][0][0] != "pid" or clo[2][0] != "block" or len(clo[2][1]) != 2 or clo[2][2] is None:
        c.err("unrecognised numerator term")
    key = clo[1][0][1]
    env = {}
    for s, mp in zip(clo[2][1], (am, bm)):
        want = ("mcall", ("mcall", ("mcall", ("path", [mp]), "get", [("path", [key])]), "cloned", []), "unwrap_or_default", [])
        if s[0] != "let" or s[1][0] != "pid" or s[3] != want:
            c.err("a numerator operand is not `%s.get(key).cloned().unwrap_or_default()`" % mp)
        env[s[1][1]] = v(s[1][1])
    na, nb = [s[1][1] for s in clo[2][1]]
    L.append("  (* fn cos_similarity: the term of the numerator for one key of the union (a missing key reads f64::default()),\n"
             "     the term of a denominator for one value, and the closing formula *)")
    L.append("  Definition cos_numer_term (%s %s : N) : N := %s." % (v(na), v(nb), c.num(clo[2][2], env)))

    def denom(s, mp):
        e = s[3]
        ok = (e[0] == "mcall" and e[2] == "sum" and e[1][0] == "mcall" and e[1][2] == "map" and e[1][1] == ("mcall", ("path", [mp]), "values", [])
              and len(e[1][3]) == 1 and e[1][3][0][0] == "closure" and len(e[1][3][0][1]) == 1 and e[1][3][0][1][0][0] == "pid")
        if not ok:
            c.err("`%s` is not a sum over the values of `%s`" % (s[1][1], mp))
        d = e[1][3][0][1][0][1]
        return c.num(e[1][3][0][2], {d: "v_d"})
    da, db = denom(st[3], am), denom(st[4], bm)
    if da != db:
        c.err("the two denominators use different terms")
    L.append("  Definition cos_denom_term (v_d : N) : N := %s." % da)
    env = {st[2][1][1]: v(st[2][1][1]), st[3][1][1]: v(st[3][1][1]), st[4][1][1]: v(st[4][1][1])}
    t5 = c.num(st[5][3], env)
    env[st[5][1][1]] = v(st[5][1][1])
    t6 = c.num(st[6][3], env)
    L.append("  Definition cos_value (%s %s %s : N) : N :=\n    let %s := %s in let %s := %s in %s.\n"
             % (v(st[2][1][1]), v(st[3][1][1]), v(st[4][1][1]), v(st[5][1][1]), t5, v(st[6][1][1]), t6, v(st[6][1][1])))
    L.append("End Fns.")
    return {"files": [f], "body": "\n".join(L), "variants": [x[0] for x in variants]}


PREAMBLE = """(* GENERATED by translator/tr_similarity.py from %s -- do not edit.
   f64 is the numeric type of the record Num; an EdgeId is a nat; Rust locals `x` are `v_x`.
   Agreement with the hand-written model: Props/GenSimilarity.v. *)
From Coq Require Import ZArith List String Bool.
From RC Require Import Base.Num Base.Res.

Module RouteSimilarity.

"""


def render(p):
    return PREAMBLE % SRC + p["body"] + "\n\nEnd RouteSimilarity.\n"


def generate(repo, gen_dir):
    p = R.fail_closed(parse_all, repo, SRC)
    dg, per = R.digest(p["files"])
    changed = R.write_if_changed(os.path.join(gen_dir, "RouteSimilarity.v"), render(p))
    return {"ok": True, "msg": "RouteSimilarity.v: %s {%s}; is_similar, rank_similarity, test_similarity, cos_similarity terms%s"
            % (ENUM, ", ".join(p["variants"]), " (rewritten)" if changed else " (unchanged)"),
            "digest": dg, "files": per, "changed": changed}


if __name__ == "__main__":
    r = generate(sys.argv[1] if len(sys.argv) > 1 else "/repo", sys.argv[2] if len(sys.argv) > 2 else "/tmp/tr3/gen")
    print(r["msg"])
