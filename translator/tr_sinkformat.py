"""Translator for the byte-level conventions of the response file sink (property C19).

Reads, under <repo>/rust/routee-compass/src/app/compass/response/:
  * response_output_format_json.rs : `initial_file_contents`, `final_file_contents`, `delimiter` (the string literal of each
                                     branch of `if newline_delimited`), `format_response` (which branch is the pretty printer),
  * response_output_format.rs      : `impl ResponseOutputFormat`: that the Json arms delegate to the functions above with the
                                     variant's flag; the Csv arms: header = key order (sorted / reversed / as stored) per
                                     `sorted`, whether keys are escaped, the join separator and the `format!` template; final
                                     contents; delimiter; the row = order, separator, text of a failed cell, text of an empty
                                     row, and the keys "error" / "csv_error" / "csv" of the error update;
                                     `csv_escape`: the characters that force quoting, the quoting template, the replacement,
  * response_sink.rs               : `write_response`, File arm: the `writeln!` template of one record, the counter increment
                                     and the flush condition,
  * write_mode.rs                  : the text written when a format has no initial contents,
  * response_output_policy.rs      : the write mode the File policy opens with and the `file_flush_rate` table,
and writes <gen_dir>/SinkFormat.v (string / character constants and small total functions).

The tie to the proofs: coq/Props/GenSinkFormat.v proves, for ALL formats, mappings, responses and strings, that the
hand-written SK.initial_file_contents, final_file_contents, delimiter, header_line, csv_escape, format_response,
record_of, flush_due, header_of and build_file of coq/Model/Sink.v equal their restatement over these generated
constants; the lemmas are proof obligations of C19 (checks/c19.py).

The output is not trusted on faith: the `fmt` stream of checks/c19.py compares SK.format_response / initial / final
contents with the real ResponseOutputFormat byte for byte, the `csv` stream reads the real files back, and the
`sink` stream replays the real H1 write trace (records, flushes) through SK.Conc.

`#[cfg(compass_verif)]` statements (hook H1) are ignored.  Deliberately narrow, FAILS CLOSED (TranslateError naming
file:line).  Local names, white space, comments do not matter.
"""
import os
import sys

sys.path.insert(0, os.path.dirname(os.path.abspath(__file__)))
import rsparse as R  # noqa: E402
from rsparse import TranslateError  # noqa: E402

DIR = "rust/routee-compass/src/app/compass/response"
SOURCES = ["response_output_format_json.rs", "response_output_format.rs", "response_sink.rs", "write_mode.rs", "response_output_policy.rs"]


def strip_ref(e):
    while e[0] == "unary" and e[1] in ("&", "*"):
        e = e[2]
    return e


class Ctx:
    def __init__(self, f, what):
        self.f, self.what = f, what

    def err(self, msg):
        raise TranslateError("%s: %s: %s" % (self.f.path, self.what, msg))

    def string_from(self, e):
        """String::from("lit") / "lit".to_string() / "lit".into() / String::new() -> python str"""
        if e[0] == "block" and not e[1] and e[2] is not None:
            e = e[2]
        if e[0] == "call" and e[1] == ("path", ["String", "from"]) and len(e[2]) == 1 and e[2][0][0] == "str":
            return e[2][0][1]
        if e[0] == "mcall" and e[1][0] == "str" and e[2] in ("to_string", "into", "to_owned") and not e[3]:
            return e[1][1]
        if e == ("call", ("path", ["String", "new"]), []):
            return ""
        self.err("expected a string literal construction, found %r" % (e if len(repr(e)) < 120 else repr(e)[:120],))

    def opt_string(self, e):
        if e[0] == "block" and not e[1] and e[2] is not None:
            e = e[2]
        if e == ("path", ["None"]):
            return None
        if e[0] == "call" and e[1] == ("path", ["Some"]) and len(e[2]) == 1:
            return self.string_from(e[2][0])
        self.err("expected None or Some(String::from(..)), found %r" % (e if len(repr(e)) < 120 else repr(e)[:120],))

    def template(self, toks, nargs_before=0):
        """tokens of a format-like macro after `nargs_before` leading arguments: "<pre>{}<post>", <ident>  ->  (pre, post, ident)"""
        parts, cur = [], []
        for t in toks:
            if t.kind == "p" and t.text == ",":
                parts.append(cur)
                cur = []
            else:
                cur.append(t)
        if cur:
            parts.append(cur)
        parts = parts[nargs_before:]
        if len(parts) != 2 or len(parts[0]) != 1 or parts[0][0].kind != "str" or len(parts[1]) != 1 or parts[1][0].kind != "id":
            self.err("expected the macro arguments `\"..{}..\", <name>`")
        s = parts[0][0].val
        if s.count("{}") != 1 or "{" in s.replace("{}", "") or "}" in s.replace("{}", ""):
            self.err("format string %r does not have exactly one plain `{}`" % s)
        pre, post = s.split("{}")
        return pre, post, parts[1][0].text


def coq_opt(s):
    return "None" if s is None else "Some %s" % R.coq_string(s)


def coq_char(c):
    return "(ascii_of_nat %d)" % ord(c)


# ------------------------------------------------------------------------------------------------ json ops

def parse_json_ops(f):
    out = {}
    for name in ("initial_file_contents", "final_file_contents", "delimiter"):
        params, ret, body, line = f.fn(name)
        c = Ctx(f, "fn %s (line %d)" % (name, line))
        if [pt for _, pt in params] != ["bool"] or ret != "Option<String>":
            c.err("expected fn(bool) -> Option<String>")
        flag = params[0][0]
        t = body[2]
        if body[1] or not t or t[0] != "if" or t[1] != ("path", [flag]) or t[3] is None:
            c.err("the body is not `if %s { .. } else { .. }`" % flag)
        out[name] = (c.opt_string(t[2]), c.opt_string(t[3]))
    params, ret, body, line = f.fn("format_response")
    c = Ctx(f, "fn format_response (line %d)" % line)
    if [pt for _, pt in params] != ["&serde_json::Value", "bool"]:
        c.err("expected fn(&serde_json::Value, bool)")
    resp, flag = params[0][0], params[1][0]
    t = body[2]
    if body[1] or not t or t[0] != "if" or t[1] != ("path", [flag]) or t[3] is None:
        c.err("the body is not `if %s { .. } else { .. }`" % flag)

    def printer(b):
        r = repr(b)
        a, p = ("['serde_json', 'to_string']" in r), ("['serde_json', 'to_string_pretty']" in r)
        if a == p or ("('path', ['%s'])" % resp) not in r:
            c.err("a branch is not one serde_json printer applied to the response")
        return "pretty" if p else "compact"
    out["printer"] = (printer(t[2]), printer(t[3]))
    return out


# ------------------------------------------------------------------------------------------------ ResponseOutputFormat

def chain(c, e, base_method):
    """<mapping>.<base>()[.sorted() | .sorted_by_key(|(k, _)| *k) | .rev()].map(<closure>).join("<sep>") -> (order, closure, sep)"""
    if not (e[0] == "mcall" and e[2] == "join" and len(e[3]) == 1 and e[3][0][0] == "str"):
        c.err("the chain does not end in `.join(\"..\")`")
    sep = e[3][0][1]
    m = e[1]
    if not (m[0] == "mcall" and m[2] == "map" and len(m[3]) == 1 and m[3][0][0] == "closure"):
        c.err("the chain has no `.map(<closure>)` before `.join`")
    clo = m[3][0]
    o = m[1]
    order = "KeysForward"
    if o[0] == "mcall" and o[2] == "sorted" and not o[3]:
        order, o = "KeysSorted", o[1]
    elif o[0] == "mcall" and o[2] == "sorted_by_key" and len(o[3]) == 1:
        k = o[3][0]
        ok = (k[0] == "closure" and len(k[1]) == 1 and k[1][0][0] == "ptuple" and len(k[1][0][1]) == 2 and k[1][0][1][0][0] == "pid"
              and k[1][0][1][1][0] == "pwild" and strip_ref(k[2]) == ("path", [k[1][0][1][0][1]]))
        if not ok:
            c.err("`sorted_by_key` is not by the key of the entry")
        order, o = "KeysSorted", o[1]
    elif o[0] == "mcall" and o[2] == "rev" and not o[3]:
        order, o = "KeysReversed", o[1]
    if not (o[0] == "mcall" and o[2] == base_method and not o[3] and strip_ref(o[1])[0] == "path"):
        c.err("the chain does not start at `<mapping>.%s()`" % base_method)
    return order, clo, sep, strip_ref(o[1])[1][0]


def parse_format(f):
    out = {}
    variants, eline = f.enum("ResponseOutputFormat")
    if [(vn, kind, [x[0] for x in fields]) for vn, kind, fields in variants] != \
            [("Json", "struct", ["newline_delimited"]), ("Csv", "struct", ["mapping", "sorted"])]:
        f.err(eline, "enum ResponseOutputFormat is not { Json { newline_delimited }, Csv { mapping, sorted } }")
    rng = f.impl_range("ResponseOutputFormat")

    def arms_of(name, ret_ok):
        params, ret, body, line = f.fn(name, rng)
        c = Ctx(f, "ResponseOutputFormat::%s (line %d)" % (name, line))
        if ret not in ret_ok:
            c.err("unexpected return type %s" % ret)
        m = body[2]
        if body[1] or not m or m[0] != "match" or m[1] != ("path", ["self"]) or len(m[2]) != 2:
            c.err("the body is not `match self { Json {..} => .., Csv {..} => .. }`")
        got = {}
        for pat, guard, b in m[2]:
            if guard is not None or pat[0] != "pstruct" or pat[1][0] != "ResponseOutputFormat" or pat[1][1] not in ("Json", "Csv"):
                c.err("unrecognised arm pattern")
            binds = {fn_: (p[1] if p[0] == "pid" else None) for fn_, p in pat[2]}
            got[pat[1][1]] = (binds, b)
        if set(got) != {"Json", "Csv"}:
            c.err("expected one Json and one Csv arm")
        return c, params, got

    def delegates(c, arm, fname, extra_first=None):
        binds, b = arm
        if b[0] == "block" and not b[1]:
            b = b[2]
        flag = binds.get("newline_delimited")
        args = ([("path", [extra_first])] if extra_first else []) + [("unary", "*", ("path", [flag]))]
        if not flag or b != ("call", ("path", ["json_ops", fname]), args):
            c.err("the Json arm is not `json_ops::%s(%s*%s)`" % (fname, (extra_first + ", ") if extra_first else "", flag or "<flag>"))

    # initial_file_contents
    c, params, got = arms_of("initial_file_contents", ("Option<String>",))
    delegates(c, got["Json"], "initial_file_contents")
    binds, b = got["Csv"]
    mp, sd = binds.get("mapping"), binds.get("sorted")
    ok = (b[0] == "block" and len(b[1]) == 1 and b[1][0][0] == "let" and b[1][0][1][0] == "pid" and b[1][0][3][0] == "if"
          and strip_ref(b[1][0][3][1]) == ("path", [sd]) and b[1][0][3][3] is not None and b[2] and b[2][0] == "call"
          and b[2][1] == ("path", ["Some"]) and len(b[2][2]) == 1 and b[2][2][0][0] == "macro" and b[2][2][0][1] == "format")
    if not ok:
        c.err("the Csv arm is not `let h = if *sorted { .. } else { .. }; Some(format!(\"..{}..\", h))`")
    hdr = b[1][0][1][1]
    res = []
    for br in (b[1][0][3][2], b[1][0][3][3]):
        if br[0] != "block" or br[1] or br[2] is None:
            c.err("a branch of the header is not a single expression")
        order, clo, sep, base = chain(c, br[2], "keys")
        if base != mp:
            c.err("the header is not built from the mapping's keys")
        esc = (len(clo[1]) == 1 and clo[1][0][0] == "pid" and clo[2] == ("call", ("path", ["csv_escape"]), [("path", [clo[1][0][1]])]))
        if not esc:
            c.err("the header keys are not mapped through `csv_escape`")
        res.append((order, sep))
    if res[0][1] != res[1][1]:
        c.err("the two header branches join with different separators")
    pre, post, who = c.template(b[2][2][0][2])
    if who != hdr:
        c.err("the format! argument is not the header")
    out["header"] = {"sorted": res[0][0], "unsorted": res[1][0], "sep": res[0][1], "pre": pre, "post": post}

    # final_file_contents / delimiter
    for name, key in (("final_file_contents", "final"), ("delimiter", "delimiter")):
        c, params, got = arms_of(name, ("Option<String>",))
        delegates(c, got["Json"], name)
        out["csv_" + key] = c.opt_string(got["Csv"][1])

    # format_response
    c, params, got = arms_of("format_response", ("Result<String,CompassAppError>",))
    resp = [pn for pn, pt in params if pt == "&mut serde_json::Value"]
    if len(resp) != 1:
        c.err("expected one `&mut serde_json::Value` parameter")
    resp = resp[0]
    delegates(c, got["Json"], "format_response", extra_first=resp)
    binds, b = got["Csv"]
    mp, sd = binds.get("mapping"), binds.get("sorted")
    st = b[1] if b[0] == "block" else []
    ok = (len(st) == 4 and st[0][0] == "let" and st[0][4] and st[1][0] == "let" and st[1][3][0] == "if" and st[2][0] == "let"
          and st[2][3][0] == "if" and st[3][0] == "expr" and st[3][1][0] == "if" and b[2] is not None)
    if not ok:
        c.err("the Csv arm is not `let mut errors = ..; let row = if *sorted {..} else {..}; let row = if row.is_empty() {..} else {row}; "
              "if !errors.is_empty() {..} Ok(row)`")
    errs = st[0][1][1]
    row1 = st[1][1][1]
    if strip_ref(st[1][3][1]) != ("path", [sd]) or st[1][3][3] is None:
        c.err("the row is not chosen by `*sorted`")
    res = []
    for br in (st[1][3][2], st[1][3][3]):
        if br[0] != "block" or br[1] or br[2] is None:
            c.err("a branch of the row is not a single expression")
        order, clo, sep, base = chain(c, br[2], "iter")
        if base != mp:
            c.err("the row is not built from the mapping's entries")
        # |(k, v)| match v.apply_mapping(response) { Ok(cell) => csv_cell(&cell), Err(msg) => { errors.insert(k.clone(), msg); String::from("") } }
        okc = (len(clo[1]) == 1 and clo[1][0][0] == "ptuple" and len(clo[1][0][1]) == 2 and all(p[0] == "pid" for p in clo[1][0][1])
               and clo[2][0] == "match")
        if okc:
            kk, vv = clo[1][0][1][0][1], clo[1][0][1][1][1]
            okc = clo[2][1] == ("mcall", ("path", [vv]), "apply_mapping", [("path", [resp])]) and len(clo[2][2]) == 2
        if not okc:
            c.err("a cell is not `match <v>.apply_mapping(%s) { Ok(..) => .., Err(..) => .. }`" % resp)
        failed = None
        for pat, guard, body in clo[2][2]:
            if pat[0] == "pts" and pat[1] == ["Ok"] and len(pat[2]) == 1 and pat[2][0][0] == "pid":
                if body != ("call", ("path", ["csv_cell"]), [("unary", "&", ("path", [pat[2][0][1]]))]):
                    c.err("the Ok arm of a cell is not `csv_cell(&cell)`")
            elif pat[0] == "pts" and pat[1] == ["Err"] and len(pat[2]) == 1 and pat[2][0][0] == "pid":
                msg = pat[2][0][1]
                want = ("expr", ("mcall", ("path", [errs]), "insert", [("mcall", ("path", [kk]), "clone", []), ("path", [msg])]))
                if not (body[0] == "block" and body[1] == [want] and body[2] is not None):
                    c.err("the Err arm of a cell is not `{ %s.insert(%s.clone(), %s); <text> }`" % (errs, kk, msg))
                failed = c.string_from(body[2])
            else:
                c.err("unrecognised arm in a cell")
        if failed is None:
            c.err("a cell has no Err arm")
        res.append((order, sep, failed))
    if res[0][1:] != res[1][1:]:
        c.err("the two row branches differ in separator or failed-cell text")
    # let row = if row.is_empty() { String::from("\"\"") } else { row };
    e2 = st[2][3]
    if not (e2[1] == ("mcall", ("path", [row1]), "is_empty", []) and e2[3] is not None and e2[3] == ("block", [], ("path", [row1]))):
        c.err("the empty-row substitution is not `if row.is_empty() { <text> } else { row }`")
    empty_row = c.string_from(e2[2])
    row2 = st[2][1][1]
    # if !errors.is_empty() { let csv_errors = json![{"csv": json![errors]}]; if response.get("error").is_some() { response["csv_error"] = .. } else { response["error"] = .. } }
    e3 = st[3][1]
    blk = e3[2]
    inner = blk[2] if (len(blk[1]) == 1 and blk[2] is not None) else (blk[1][1][1] if len(blk[1]) == 2 and blk[2] is None and blk[1][1][0] == "expr" else None)
    ok = (e3[1] == ("unary", "!", ("mcall", ("path", [errs]), "is_empty", [])) and e3[3] is None and inner is not None
          and blk[1][0][0] == "let" and blk[1][0][3][0] == "macro" and blk[1][0][3][1] == "json"
          and inner[0] == "if" and inner[3] is not None)
    if not ok:
        c.err("unrecognised error update")
    toks = [(t.kind, t.val if t.kind == "str" else t.text) for t in e3[2][1][0][3][2]]
    want = [("p", "{"), ("str", None), ("p", ":"), ("id", "json"), ("p", "!"), ("p", "["), ("id", errs), ("p", "]"), ("p", "}")]
    if len(toks) != len(want) or any(w[0] != t[0] or (w[1] is not None and w[1] != t[1]) for w, t in zip(want, toks)):
        c.err("the error value is not `json![{\"<key>\": json![%s]}]`" % errs)
    wrap_key = toks[1][1]
    cev = e3[2][1][0][1][1]
    pr = inner[1]
    if not (pr[0] == "mcall" and pr[2] == "is_some" and pr[1][0] == "mcall" and pr[1][1] == ("path", [resp]) and pr[1][2] == "get"
            and len(pr[1][3]) == 1 and pr[1][3][0][0] == "str"):
        c.err("the probe is not `%s.get(\"<key>\").is_some()`" % resp)
    probe = pr[1][3][0][1]

    def assigned(bl):
        if not (bl[0] == "block" and len(bl[1]) == 1 and bl[2] is None and bl[1][0][0] == "assign" and bl[1][0][2] == "="
                and bl[1][0][3] == ("path", [cev]) and bl[1][0][1][0] == "index" and bl[1][0][1][1] == ("path", [resp])
                and bl[1][0][1][2][0] == "str"):
            c.err("a branch of the error update is not `%s[\"<key>\"] = %s;`" % (resp, cev))
        return bl[1][0][1][2][1]
    key_present, key_absent = assigned(inner[2]), assigned(inner[3])
    if b[2] != ("call", ("path", ["Ok"]), [("path", [row2])]):
        c.err("the Csv arm does not end in Ok(row)")
    out["row"] = {"sorted": res[0][0], "unsorted": res[1][0], "sep": res[0][1], "failed": res[0][2], "empty": empty_row,
                  "wrap": wrap_key, "probe": probe, "present": key_present, "absent": key_absent}

    # csv_cell: a string by its content, anything else by its JSON text
    params, ret, body, line = f.fn("csv_cell")
    c = Ctx(f, "fn csv_cell (line %d)" % line)
    m = body[2]
    ok = (not body[1] and m and m[0] == "match" and m[1] == ("path", [params[0][0]]) and len(m[2]) == 2)
    if ok:
        (p1, g1, b1), (p2, g2, b2) = m[2]
        ok = (p1[0] == "pts" and p1[1] == ["serde_json", "Value", "String"] and len(p1[2]) == 1 and p1[2][0][0] == "pid"
              and b1 == ("call", ("path", ["csv_escape"]), [("path", [p1[2][0][1]])]) and p2[0] == "pid"
              and b2 == ("call", ("path", ["csv_escape"]), [("unary", "&", ("mcall", ("path", [p2[1]]), "to_string", []))]))
    if not ok:
        c.err("csv_cell is not `match cell { Value::String(s) => csv_escape(s), other => csv_escape(&other.to_string()) }`")

    # csv_escape
    params, ret, body, line = f.fn("csv_escape")
    c = Ctx(f, "fn csv_escape (line %d)" % line)
    fld = params[0][0]
    t = body[2]
    ok = (not body[1] and t and t[0] == "if" and t[3] is not None and t[1][0] == "mcall" and t[1][1] == ("path", [fld]) and t[1][2] == "contains"
          and len(t[1][3]) == 1 and t[1][3][0][0] == "array" and all(x[0] == "char" for x in t[1][3][0][1]))
    if not ok:
        c.err("csv_escape is not `if field.contains([<chars>]) { .. } else { .. }`")
    triggers = [x[1] for x in t[1][3][0][1]]
    th = t[2][2] if t[2][0] == "block" and not t[2][1] else None
    el = t[3][2] if t[3][0] == "block" and not t[3][1] else None
    if el != ("mcall", ("path", [fld]), "to_string", []):
        c.err("the else branch of csv_escape is not `field.to_string()`")
    if not (th and th[0] == "macro" and th[1] == "format"):
        c.err("the then branch of csv_escape is not a format!")
    toks = th[2]
    # "\"{}\"" , field . replace ( '"' , "\"\"" )
    kinds = [(x.kind, x.text if x.kind != "str" and x.kind != "char" else None) for x in toks]
    want = [("str", None), ("p", ","), ("id", fld), ("p", "."), ("id", "replace"), ("p", "("), ("char", None), ("p", ","), ("str", None), ("p", ")")]
    if kinds != want:
        c.err("the quoting is not `format!(\"<pre>{}<post>\", field.replace('<c>', \"<s>\"))`")
    s = toks[0].val
    if s.count("{}") != 1:
        c.err("the quoting template does not have exactly one `{}`")
    pre, post = s.split("{}")
    out["escape"] = {"triggers": triggers, "pre": pre, "post": post, "from": toks[6].val, "to": toks[8].val}
    return out


# ------------------------------------------------------------------------------------------------ sink / write mode / policy

def find_macro_stmts(block, names):
    """statements of the block that are `<name>!(..)` possibly followed by `.map_err(..)` / `?`: [(index, macro node)]"""
    acc = []
    for i, s in enumerate(block[1]):
        if s[0] == "expr":
            x = s[1]
            while x[0] in ("try", "mcall"):
                x = x[1]
            if x[0] == "macro" and x[1] in names:
                acc.append((i, x))
    return acc


def parse_sink(f):
    rng = f.impl_range("ResponseSink")
    params, ret, body, line = f.fn("write_response", rng)
    c = Ctx(f, "ResponseSink::write_response (line %d)" % line)
    m = body[2]
    if body[1] or not m or m[0] != "match" or m[1] != ("path", ["self"]):
        c.err("the body is not `match self { .. }`")
    arm = [a for a in m[2] if a[0][0] == "pstruct" and a[0][1] == ["ResponseSink", "File"]]
    if len(arm) != 1:
        c.err("expected one `ResponseSink::File { .. }` arm")
    pat, guard, b = arm[0]
    binds = {fn_: (p[1] if p[0] == "pid" else None) for fn_, p in pat[2]}
    fmt, rate = binds.get("format"), binds.get("iterations_per_flush")
    if b[0] != "block" or not fmt or not rate:
        c.err("the File arm does not bind `format` and `iterations_per_flush`")
    resp = [pn for pn, pt in params if pt == "&mut serde_json::Value"][0]
    rows = [s for s in b[1] if s[0] == "let" and s[1][0] == "pid" and s[3] == ("try", ("mcall", ("path", [fmt]), "format_response", [("path", [resp])]))]
    if len(rows) != 1:
        c.err("expected exactly one `let <row> = %s.format_response(%s)?;`" % (fmt, resp))
    row = rows[0][1][1]
    macros = find_macro_stmts(b, ("writeln", "write"))
    if len(macros) != 1:
        c.err("expected exactly one write!/writeln! of the record, found %d" % len(macros))
    idx_write, mac = macros[0]
    pre, post, who = c.template(mac[2], nargs_before=1)
    if who != row:
        c.err("the record written is not the formatted row")
    if mac[1] == "writeln":
        post += "\n"
    # *it += 1;  if *it % rate == 0 { flush }
    bump = [s for s in b[1] if s[0] == "assign" and s[2] == "+=" and s[3][0] == "num"]
    if len(bump) != 1 or not bump[0][3][1].isdigit():
        c.err("expected exactly one `<counter> += <n>;`")
    counter = strip_ref(bump[0][1])
    flush = [s for s in b[1] if s[0] == "expr" and s[1][0] == "if" and "'flush'" in repr(s[1][2])]
    if len(flush) != 1 or flush[0][1][3] is not None:
        c.err("expected exactly one `if <cond> { <file>.flush() .. }`")
    cond = flush[0][1][1]
    ok = (cond[0] == "bin" and cond[1] == "==" and cond[2][0] == "bin" and cond[2][1] == "%" and strip_ref(cond[2][2]) == counter
          and strip_ref(cond[2][3]) == ("path", [rate]) and cond[3][0] == "num" and cond[3][1].isdigit())
    if not ok:
        c.err("the flush condition is not `<counter> %% %s == <n>`" % rate)
    if not (idx_write < b[1].index(bump[0]) < b[1].index(flush[0])):
        c.err("the order is not: write the record, increment the counter, test for flush")
    return {"pre": pre, "post": post, "bump": int(bump[0][3][1]), "flush_eq": int(cond[3][1])}


def parse_write_mode(f):
    params, ret, body, line = f.fn("write_header")
    c = Ctx(f, "fn write_header (line %d)" % line)
    fmt = [pn for pn, pt in params if pt == "&ResponseOutputFormat"]
    if len(fmt) != 1 or not body[1] or body[1][0][0] != "let":
        c.err("unrecognised shape")
    e = body[1][0][3]
    ok = (e[0] == "mcall" and e[2] in ("unwrap_or_else", "unwrap_or") and len(e[3]) == 1
          and e[1] == ("mcall", ("path", [fmt[0]]), "initial_file_contents", []))
    if not ok:
        c.err("the header is not `%s.initial_file_contents().unwrap_or_else(|| <text>)`" % fmt[0])
    d = e[3][0]
    if d[0] == "closure" and not d[1]:
        d = d[2]
    default = c.string_from(d)
    hv = body[1][0][1][1]
    if "('call', ('path', ['std', 'fs', 'write'])" not in repr(body[2]) or ("('path', ['%s'])" % hv) not in repr(body[2]):
        c.err("the header is not written with std::fs::write")
    return {"default": default}


def parse_policy(f):
    rng = f.impl_range("ResponseOutputPolicy")
    params, ret, body, line = f.fn("build", rng)
    c = Ctx(f, "ResponseOutputPolicy::build (line %d)" % line)
    m = body[2]
    if body[1] or not m or m[0] != "match" or m[1] != ("path", ["self"]):
        c.err("the body is not `match self { .. }`")
    arm = [a for a in m[2] if a[0][0] == "pstruct" and a[0][1] == ["ResponseOutputPolicy", "File"]]
    if len(arm) != 1:
        c.err("expected one `ResponseOutputPolicy::File { .. }` arm")
    pat, guard, b = arm[0]
    binds = {fn_: (p[1] if p[0] == "pid" else None) for fn_, p in pat[2]}
    rate, fmt = binds.get("file_flush_rate"), binds.get("format")
    opens = [s for s in b[1] if s[0] == "let" and s[3] is not None and s[3][0] == "try" and s[3][1][0] == "mcall" and s[3][1][2] == "open_file"]
    if len(opens) != 1 or opens[0][3][1][1][0] != "path" or opens[0][3][1][1][1][0] != "WriteMode" or len(opens[0][3][1][1][1]) != 2 \
            or opens[0][3][1][3][1:] != [("path", [fmt])]:
        c.err("expected exactly one `let file = WriteMode::<Mode>.open_file(&path, format)?;`")
    mode = opens[0][3][1][1][1][1]
    tabs = [s for s in b[1] if s[0] == "let" and s[3] is not None and s[3][0] == "try" and s[3][1][0] == "match" and s[3][1][1] == ("path", [rate])]
    if len(tabs) != 1:
        c.err("expected exactly one `let n = match %s { .. }?;`" % rate)
    rows = []
    for pat, guard, val in tabs[0][3][1][2]:
        if pat == ("ppath", ["None"]):
            lhs, var = "None", None
        elif pat[0] == "pts" and pat[1] == ["Some"] and len(pat[2]) == 1 and pat[2][0][0] == "pid":
            var = pat[2][0][1]
            lhs = "Some v_" + var
        else:
            c.err("unrecognised pattern in the flush-rate table")
        g = None
        if guard is not None:
            ok = (guard[0] == "bin" and guard[1] in ("<=", "<", ">", ">=", "==") and strip_ref(guard[2]) == ("path", [var])
                  and guard[3][0] == "num" and guard[3][1].isdigit())
            if not ok:
                c.err("unrecognised guard in the flush-rate table")
            g = "(v_%s %s %s)%%Z" % (var, {"<=": "<=?", "<": "<?", ">": ">?", ">=": ">=?", "==": "=?"}[guard[1]], guard[3][1])
        if val[0] == "call" and val[1] == ("path", ["Err"]):
            rhs = "None"
        elif val[0] == "call" and val[1] == ("path", ["Ok"]) and len(val[2]) == 1:
            x = val[2][0]
            if x[0] == "num" and x[1].isdigit():
                rhs = "Some %s%%nat" % x[1]
            elif x[0] == "cast" and x[2] == "u64" and var and strip_ref(x[1]) == ("path", [var]):
                rhs = "Some (Z.to_nat v_%s)" % var
            else:
                c.err("unrecognised value in the flush-rate table")
        else:
            c.err("unrecognised value in the flush-rate table")
        rows.append((lhs, g, rhs))
    # the ordered, guarded rows as one total function
    none_rows = [r for r in rows if r[0] == "None"]
    some_rows = [r for r in rows if r[0] != "None"]
    if len(none_rows) != 1 or none_rows[0][1] is not None or not some_rows or some_rows[-1][1] is not None:
        c.err("the flush-rate table must have one unguarded None row and end its Some rows with an unguarded one")
    var = some_rows[-1][0].split()[1]
    body_some = some_rows[-1][2].replace(some_rows[-1][0].split()[1], var)
    for lhs, g, rhs in reversed(some_rows[:-1]):
        v0 = lhs.split()[1]
        body_some = "if %s then %s else %s" % (g.replace(v0, var), rhs.replace(v0, var), body_some)
    text = ("Definition policy_flush_rate (r : option Z) : option nat :=\n  match r with\n  | None => %s\n  | Some %s => %s\n  end."
            % (none_rows[0][2], var, body_some))
    return {"mode": mode, "flush_table": text}


PREAMBLE = """(* GENERATED by translator/tr_sinkformat.py from %s/{%s} -- do not edit.
   String and character constants exactly as written in the source (escapes resolved), small tables as total functions.
   Agreement with the hand-written model: Props/GenSinkFormat.v. *)
From Coq Require Import ZArith String Ascii List Bool Arith.
Import ListNotations.
Open Scope string_scope.

Module SinkFormat.

(* the order in which the entries of the CSV mapping are visited *)
Inductive key_order : Set := KeysSorted | KeysReversed | KeysForward.
(* which serde_json printer *)
Inductive printer : Set := Compact | Pretty.

"""


def parse_all(repo):
    fs = [R.File(repo, os.path.join(DIR, s)) for s in SOURCES]
    j = parse_json_ops(fs[0])
    o = parse_format(fs[1])
    s = parse_sink(fs[2])
    w = parse_write_mode(fs[3])
    p = parse_policy(fs[4])
    L = []
    L.append("(* ---- response_output_format_json.rs ---- *)")
    for name, d in (("initial_file_contents", "json_initial_file_contents"), ("final_file_contents", "json_final_file_contents"),
                    ("delimiter", "json_delimiter")):
        L.append("Definition %s (newline_delimited : bool) : option string :=\n  if newline_delimited then %s else %s."
                 % (d, coq_opt(j[name][0]), coq_opt(j[name][1])))
    L.append("Definition json_printer (newline_delimited : bool) : printer :=\n  if newline_delimited then %s else %s.\n"
             % tuple("Pretty" if x == "pretty" else "Compact" for x in j["printer"]))
    h = o["header"]
    L.append("(* ---- response_output_format.rs: impl ResponseOutputFormat (the Json arms delegate to the functions above) ---- *)")
    L.append("Definition csv_header_order (sorted : bool) : key_order := if sorted then %s else %s." % (h["sorted"], h["unsorted"]))
    L.append("Definition csv_header_join : string := %s." % R.coq_string(h["sep"]))
    L.append("Definition csv_header_template : string * string := (%s, %s).   (* format!(\"<fst>{}<snd>\", header); keys go through csv_escape *)"
             % (R.coq_string(h["pre"]), R.coq_string(h["post"])))
    L.append("Definition csv_final_file_contents : option string := %s." % coq_opt(o["csv_final"]))
    L.append("Definition csv_delimiter : option string := %s." % coq_opt(o["csv_delimiter"]))
    r = o["row"]
    L.append("Definition csv_row_order (sorted : bool) : key_order := if sorted then %s else %s." % (r["sorted"], r["unsorted"]))
    L.append("Definition csv_row_join : string := %s." % R.coq_string(r["sep"]))
    L.append("Definition csv_failed_cell : string := %s.   (* the text of a cell whose mapping failed (not escaped) *)" % R.coq_string(r["failed"]))
    L.append("Definition csv_empty_row : string := %s.      (* written instead of an empty row *)" % R.coq_string(r["empty"]))
    L.append("Definition csv_error_wrap_key : string := %s.       (* json![{<key>: json![errors]}] *)" % R.coq_string(r["wrap"]))
    L.append("Definition csv_error_probe_key : string := %s.      (* response.get(<key>).is_some() *)" % R.coq_string(r["probe"]))
    L.append("Definition csv_error_key_if_present : string := %s." % R.coq_string(r["present"]))
    L.append("Definition csv_error_key_if_absent : string := %s.\n" % R.coq_string(r["absent"]))
    e = o["escape"]
    L.append("(* ---- response_output_format.rs: fn csv_escape ---- *)")
    L.append("Definition csv_quote_triggers : list ascii := [%s]." % "; ".join(coq_char(x) for x in e["triggers"]))
    L.append("Definition csv_quote_template : string * string := (%s, %s)." % (R.coq_string(e["pre"]), R.coq_string(e["post"])))
    L.append("Definition csv_quote_replace : ascii * string := (%s, %s).\n" % (coq_char(e["from"]), R.coq_string(e["to"])))
    L.append("(* ---- response_sink.rs: ResponseSink::write_response, File arm ---- *)")
    L.append("Definition sink_record_template : string * string := (%s, %s).   (* what surrounds the row in the bytes of one record *)"
             % (R.coq_string(s["pre"]), R.coq_string(s["post"])))
    L.append("Definition sink_counter_step : nat := %d." % s["bump"])
    L.append("Definition sink_flush_due (counter rate : nat) : bool := (counter mod rate =? %d)%%nat.\n" % s["flush_eq"])
    L.append("(* ---- write_mode.rs: fn write_header ---- *)")
    L.append("Definition header_default : string := %s.   (* written when the format has no initial contents *)\n" % R.coq_string(w["default"]))
    L.append("(* ---- response_output_policy.rs: ResponseOutputPolicy::build, File arm ---- *)")
    L.append("Definition policy_write_mode : string := \"%s\".   (* WriteMode::<this>.open_file(..) *)" % p["mode"])
    L.append("(* iterations_per_flush from file_flush_rate; None = Err *)")
    L.append(p["flush_table"])
    return {"files": fs, "body": "\n".join(L), "sum": (j, o, s, w, p)}


def render(p):
    return PREAMBLE % (DIR, ",".join(SOURCES)) + p["body"] + "\n\nEnd SinkFormat.\n"


def generate(repo, gen_dir):
    p = R.fail_closed(parse_all, repo, DIR + "/{" + ",".join(SOURCES) + "}")      # raises TranslateError on anything unrecognised
    dg, per = R.digest(p["files"])
    changed = R.write_if_changed(os.path.join(gen_dir, "SinkFormat.v"), render(p))
    j, o, s, w, pol = p["sum"]
    return {"ok": True,
            "msg": "SinkFormat.v: json initial %r final %r delimiter %r; csv header %s/%s sep %r, delimiter %r, empty row %r, quote on %r; "
                   "record template %r; policy mode %s%s"
                   % (j["initial_file_contents"], j["final_file_contents"], j["delimiter"], o["header"]["sorted"], o["header"]["unsorted"],
                      o["header"]["sep"], o["csv_delimiter"], o["row"]["empty"], "".join(o["escape"]["triggers"]), (s["pre"], s["post"]),
                      pol["mode"], " (rewritten)" if changed else " (unchanged)"),
            "digest": dg, "files": per, "changed": changed}


if __name__ == "__main__":
    r = generate(sys.argv[1] if len(sys.argv) > 1 else "/repo", sys.argv[2] if len(sys.argv) > 2 else "/tmp/tr2/gen")
    print(r["msg"])
