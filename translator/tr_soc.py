"""Translator for the battery state-of-charge arithmetic of the powertrain crate (property C08).

Reads, under <repo>/rust/routee-compass-powertrain/src/routee/vehicle/:
  * vehicle_ops.rs  : the bodies of `as_soc_percent`, `soc_from_battery_and_delta` (let-chains of f64 arithmetic ending
                      in `.clamp(lo, hi)`) and `update_soc_percent` (the arithmetic between
                      `state_model.get_custom_f64(..)?` and `state_model.set_custom_f64(.., &<result>)`),
  * default/bev.rs  : `impl VehicleType for BEV :: update_from_query`: the default of a missing
    default/phev.rs   "starting_soc_percent" (BEV: a literal; PHEV: none, the key is required), the admissible range
                      `(lo..=hi).contains(&soc)` and the expression of the starting battery energy,
and writes <gen_dir>/Soc.v: one Gallina function per item, generic in the numeric record `Num`, the arithmetic in the
ORDER of the Rust expressions, every literal as (mantissa, decimal exponent) as written in the source.

The tie to the proofs: coq/Props/GenSoc.v proves, for ALL arguments, that the hand-written functions of
coq/Model/Vehicle.v (as_soc_percent, soc_from_battery_and_delta, update_soc_percent, soc_in_query_range,
starting_energy, the two defaults) equal these generated ones; the lemmas are proof obligations of C08
(checks/c08.py).  A changed constant, operator, operand order or clamp bound changes Soc.v and breaks them.

The output is not trusted on faith: the `route` stream of checks/c08.py executes coq/Model/Vehicle.v (proved equal
to these definitions) in binary64 against BEV / PHEV `consume_energy`, `state_features` and `update_from_query`
bit for bit; the `queries` stream drives update_from_query with missing / non-numeric / out-of-range values.

Deliberately narrow, FAILS CLOSED (TranslateError naming file:line).  Local names, white space, comments do not matter.
"""
import os
import sys

sys.path.insert(0, os.path.dirname(os.path.abspath(__file__)))
import rsparse as R  # noqa: E402
from rsparse import TranslateError  # noqa: E402

DIR = "rust/routee-compass-powertrain/src/routee/vehicle"
SOURCES = ["vehicle_ops.rs", "default/bev.rs", "default/phev.rs"]
NUM_PARAM = {"&Energy", "Energy", "f64", "&f64"}


def v(name):
    return "v_" + name


class FloatBody:
    """compiles f64 let-chains; `known` = names of already translated functions that may be called"""

    def __init__(self, f, what, known):
        self.f, self.what, self.known = f, what, known

    def err(self, msg):
        raise TranslateError("%s: %s: %s" % (self.f.path, self.what, msg))

    def lit(self, text):
        if not R.is_float_literal(text):
            self.err("integer literal `%s` where a float is expected" % text)
        m, x = R.float_literal(text, self.f.path)
        return "(lit %s %s)" % (R.coq_z(m), R.coq_z(x))

    def num(self, e, env):
        k = e[0]
        if k == "path" and len(e[1]) == 1 and e[1][0] in env:
            return env[e[1][0]]
        if k == "num":
            return self.lit(e[1])
        if k == "unary" and e[1] in ("*", "&"):
            return self.num(e[2], env)
        if k == "unary" and e[1] == "-":
            return "(opp %s)" % self.num(e[2], env)
        if k == "mcall" and e[2] == "as_f64" and not e[3]:
            return self.num(e[1], env)
        if k == "call" and e[1] == ("path", ["Energy", "new"]) and len(e[2]) == 1:
            return self.num(e[2][0], env)
        if k == "field" and e[1] == ("path", ["self"]) and ("self." + e[2]) in env:
            return env["self." + e[2]]
        if k == "bin" and e[1] in ("+", "-", "*", "/"):
            return "(%s %s %s)" % ({"+": "add", "-": "sub", "*": "mul", "/": "div"}[e[1]], self.num(e[2], env), self.num(e[3], env))
        if k == "mcall" and e[2] == "clamp" and len(e[3]) == 2:
            return "(f64_clamp %s %s %s)" % (self.num(e[1], env), self.num(e[3][0], env), self.num(e[3][1], env))
        if k == "call" and e[1][0] == "path" and len(e[1][1]) == 1 and e[1][1][0] in self.known:
            name = e[1][1][0]
            if len(e[2]) != self.known[name]:
                self.err("call of %s with %d arguments, expected %d" % (name, len(e[2]), self.known[name]))
            return "(%s %s)" % (name, " ".join(self.num(a, env) for a in e[2]))
        self.err("unrecognised f64 expression %r" % (e if len(repr(e)) < 200 else repr(e)[:200],))

    def chain(self, stmts, tail, env):
        env = dict(env)
        out = []
        for s in stmts:
            if s[0] != "let" or s[1][0] != "pid" or s[3] is None or s[4]:
                self.err("unrecognised statement %r" % (s if len(repr(s)) < 200 else repr(s)[:200],))
            out.append("let %s := %s in " % (v(s[1][1]), self.num(s[3], env)))
            env[s[1][1]] = v(s[1][1])
        return "".join(out) + self.num(tail, env)


def plain_fn(f, name, known):
    params, ret, body, line = f.fn(name)
    if ret != "f64":
        raise TranslateError("%s:%d: fn %s: return type %s, expected f64" % (f.path, line, name, ret))
    env = {}
    for pn, pt in params:
        if pt not in NUM_PARAM:
            raise TranslateError("%s:%d: fn %s: parameter `%s: %s` outside the translated subset" % (f.path, line, name, pn, pt))
        env[pn] = v(pn)
    fb = FloatBody(f, "fn %s (line %d)" % (name, line), known)
    if body[2] is None:
        fb.err("the body has no value")
    text = fb.chain(body[1], body[2], env)
    return "  Definition %s %s: N :=\n    %s." % (name, "".join("(%s : N) " % v(pn) for pn, _ in params), text), len(params)


def update_soc_fn(f, known):
    name = "update_soc_percent"
    params, ret, body, line = f.fn(name)
    fb = FloatBody(f, "fn %s (line %d)" % (name, line), known)
    ptypes = dict(params)
    if ret != "Result<(),StateModelError>":
        fb.err("return type %s" % ret)
    stmts, tail = body[1], body[2]
    if not stmts or tail is None:
        fb.err("unrecognised body")
    # the value read from the state and the value written back, both through the state model, same feature
    s0 = stmts[0]
    sm = [pn for pn, pt in params if pt == "&StateModel"]
    st = [pn for pn, pt in params if pt == "&mut [StateVar]"]
    nm = [pn for pn, pt in params if pt == "&str"]
    if len(sm) != 1 or len(st) != 1 or len(nm) != 1:
        fb.err("expected one `&StateModel`, one `&mut [StateVar]` and one `&str` parameter")
    key = ("unary", "&", ("mcall", ("path", [nm[0]]), "into", []))
    want_get = ("try", ("mcall", ("path", [sm[0]]), "get_custom_f64", [("path", [st[0]]), key]))
    if not (s0[0] == "let" and s0[1][0] == "pid" and not s0[4] and s0[3] == want_get):
        fb.err("the first statement must be `let <soc> = %s.get_custom_f64(%s, &%s.into())?;`" % (sm[0], st[0], nm[0]))
    if not (tail[0] == "mcall" and tail[1] == ("path", [sm[0]]) and tail[2] == "set_custom_f64" and len(tail[3]) == 3
            and tail[3][0] == ("path", [st[0]]) and tail[3][1] == key):
        fb.err("the value of the body must be `%s.set_custom_f64(%s, &%s.into(), &<value>)`" % (sm[0], st[0], nm[0]))
    nums = [pn for pn, pt in params if pt in NUM_PARAM]
    env = {pn: v(pn) for pn in nums}
    env[s0[1][1]] = v(s0[1][1])
    text = fb.chain(stmts[1:], tail[3][2], env)
    args = [s0[1][1]] + nums
    return ("  Definition update_soc_percent_value %s: N :=\n    %s." % ("".join("(%s : N) " % v(a) for a in args), text)), args


def query_soc(f, ty):
    """impl VehicleType for <ty> :: update_from_query  ->  (default | None, (lo, hi, inclusive), energy expr text, args)"""
    rng = f.impl_range(ty, trait="VehicleType")
    params, ret, body, line = f.fn("update_from_query", rng)
    fb = FloatBody(f, "%s::update_from_query (line %d)" % (ty, line), {})
    q = [pn for pn, pt in params if pt == "&serde_json::Value"]
    if len(q) != 1:
        fb.err("expected one `&serde_json::Value` parameter")
    stmts, tail = body[1], body[2]
    if len(stmts) != 4 or tail is None:
        fb.err("expected: let <soc> = ..; if !(lo..=hi).contains(&<soc>) { return Err(..); } let <energy> = Energy::new(..); "
               "let <new> = %s { .. }; Ok(Arc::new(<new>))" % ty)
    s_soc, s_rng, s_en, s_new = stmts
    # -- (a) how the value is obtained from the query
    KEY = ("mcall", ("str", "starting_soc_percent"), "to_string", [])
    get = ("mcall", ("path", [q[0]]), "get", [KEY])
    if not (s_soc[0] == "let" and s_soc[1][0] == "pid" and not s_soc[4]):
        fb.err("first statement is not `let <soc> = ..`")
    soc = s_soc[1][1]
    val = s_soc[3]

    def is_build_err(e):
        return (e[0] == "closure" and not e[1] and e[2][0] in ("call", "block")
                and "BuildError" in repr(e[2]) and "TraversalModelError" in repr(e[2]))

    def as_f64_or_err(e, recv):
        return (e[0] == "try" and e[1][0] == "mcall" and e[1][2] == "ok_or_else" and len(e[1][3]) == 1 and is_build_err(e[1][3][0])
                and e[1][1] == ("mcall", recv, "as_f64", []))
    default = None
    if val[0] == "match" and val[1] == get and len(val[2]) == 2:
        arms = {}
        for pat, guard, b in val[2]:
            if guard is not None:
                fb.err("match guard")
            if pat[0] == "pts" and pat[1] == ["Some"] and len(pat[2]) == 1 and pat[2][0][0] == "pid":
                arms["some"] = (pat[2][0][1], b)
            elif pat[0] == "ppath" and pat[1] == ["None"]:
                arms["none"] = b
        if set(arms) != {"some", "none"} or not as_f64_or_err(arms["some"][1], ("path", [arms["some"][0]])):
            fb.err("unrecognised `match %s.get(\"starting_soc_percent\")`" % q[0])
        if arms["none"][0] != "num":
            fb.err("the `None` arm must be a float literal (the default state of charge)")
        default = fb.lit(arms["none"][1])
    else:
        # query.get(KEY).ok_or_else(|| BuildError)?.as_f64().ok_or_else(|| BuildError)?
        inner = ("try", ("mcall", get, "ok_or_else", None))
        ok = (val[0] == "try" and val[1][0] == "mcall" and val[1][2] == "ok_or_else" and len(val[1][3]) == 1 and is_build_err(val[1][3][0])
              and val[1][1][0] == "mcall" and val[1][1][2] == "as_f64" and not val[1][1][3])
        if ok:
            r = val[1][1][1]
            ok = (r[0] == "try" and r[1][0] == "mcall" and r[1][2] == "ok_or_else" and len(r[1][3]) == 1 and is_build_err(r[1][3][0])
                  and r[1][1] == get)
        if not ok:
            fb.err("unrecognised way of reading \"starting_soc_percent\" from the query")
    # -- (b) the admissible range
    c = s_rng
    ok = (c[0] == "expr" and c[1][0] == "if" and c[1][3] is None and c[1][1][0] == "unary" and c[1][1][1] == "!"
          and c[1][1][2][0] == "mcall" and c[1][1][2][2] == "contains" and c[1][1][2][3] == [("unary", "&", ("path", [soc]))]
          and c[1][1][2][1][0] == "range" and c[1][1][2][1][1] is not None and c[1][1][2][1][2] is not None)
    if ok:
        th = c[1][2]
        ok = (len(th[1]) == 1 and th[2] is None and th[1][0][0] == "expr" and th[1][0][1][0] == "return"
              and th[1][0][1][1][0] == "call" and th[1][0][1][1][1] == ("path", ["Err"]) and "BuildError" in repr(th[1][0][1][1]))
    if not ok:
        fb.err("second statement is not `if !(lo..=hi).contains(&%s) { return Err(BuildError(..)); }`" % soc)
    rg = c[1][1][2][1]
    lo, hi, incl = fb.num(rg[1], {}), fb.num(rg[2], {}), rg[3]
    # -- (c) the starting energy
    if not (s_en[0] == "let" and s_en[1][0] == "pid" and not s_en[4] and s_en[3][0] == "call"
            and s_en[3][1] == ("path", ["Energy", "new"]) and len(s_en[3][2]) == 1):
        fb.err("third statement is not `let <energy> = Energy::new(<expr>);`")
    energy = fb.num(s_en[3][2][0], {soc: v("soc_percent"), "self.battery_capacity": v("capacity")})
    # -- (d) the new vehicle carries that energy and the same capacity
    if not (s_new[0] == "let" and s_new[1][0] == "pid" and s_new[3][0] == "struct" and s_new[3][1] == [ty]):
        fb.err("fourth statement is not `let <new> = %s { .. };`" % ty)
    fields = dict(s_new[3][2])
    if fields.get("starting_battery_energy") != ("path", [s_en[1][1]]):
        fb.err("the new vehicle's starting_battery_energy is not the computed energy")
    if fields.get("battery_capacity") != ("field", ("path", ["self"]), "battery_capacity"):
        fb.err("the new vehicle's battery_capacity is not self.battery_capacity")
    if tail != ("call", ("path", ["Ok"]), [("call", ("path", ["Arc", "new"]), [("path", [s_new[1][1]])])]):
        fb.err("the value of the body is not `Ok(Arc::new(<new>))`")
    return default, (lo, hi, incl), energy


PREAMBLE = """(* GENERATED by translator/tr_soc.py from %s/{%s} -- do not edit.
   f64 arithmetic in the order of the Rust expressions; Energy / f64 are the numeric type of the record Num;
   Rust locals `x` are `v_x`.  Agreement with the hand-written model: Props/GenSoc.v. *)
From Coq Require Import ZArith Bool.
From RC Require Import Base.Num.

Module Soc.

(* ---- fixed vocabulary (what the translator assumes about std, not derived from the source) ---- *)
(* f64::clamp(self, min, max) for min <= max: min when self < min, max when self > max, else self (NaN stays NaN) *)
Definition f64_clamp {N : Num} (x lo hi : N) : N := if ltb x lo then lo else if ltb hi x then hi else x.
(* RangeInclusive::contains / Range::contains *)
Definition range_contains {N : Num} (inclusive : bool) (lo hi x : N) : bool :=
  leb lo x && (if inclusive then leb x hi else ltb x hi).

(* ---- generated from the source ---- *)
Section Fns.
  Variable N : Num.

"""


def parse_all(repo):
    fo = R.File(repo, os.path.join(DIR, SOURCES[0]))
    fb = R.File(repo, os.path.join(DIR, SOURCES[1]))
    fp = R.File(repo, os.path.join(DIR, SOURCES[2]))
    L, known = [], {}
    for name in ("as_soc_percent", "soc_from_battery_and_delta"):
        text, n = plain_fn(fo, name, known)
        known[name] = n
        L.append("  (* vehicle_ops.rs: fn %s *)\n%s\n" % (name, text))
    text, args = update_soc_fn(fo, known)
    L.append("  (* vehicle_ops.rs: fn update_soc_percent, the value written back by set_custom_f64 as a function of the value\n"
             "     read by get_custom_f64 (first argument) and the f64 / Energy parameters *)\n%s\n" % text)
    summary = {}
    for f, ty, tag in ((fb, "BEV", "bev"), (fp, "PHEV", "phev")):
        default, (lo, hi, incl), energy = query_soc(f, ty)
        summary[tag] = (default, lo, hi, incl)
        L.append("  (* default/%s.rs: %s::update_from_query *)" % (tag, ty))
        L.append("  Definition %s_query_soc_default : option N := %s.   (* value used when \"starting_soc_percent\" is absent; None = Err *)"
                 % (tag, "Some %s" % default if default else "None"))
        L.append("  Definition %s_query_soc_in_range (x : N) : bool := range_contains %s %s %s x." % (tag, "true" if incl else "false", lo, hi))
        L.append("  Definition %s_starting_energy (v_soc_percent v_capacity : N) : N :=\n    %s.\n" % (tag, energy))
    return {"files": [fo, fb, fp], "body": "\n".join(L), "summary": summary}


def render(p):
    return PREAMBLE % (DIR, ",".join(SOURCES)) + p["body"] + "End Fns.\n\nEnd Soc.\n"


def generate(repo, gen_dir):
    p = R.fail_closed(parse_all, repo, DIR + "/{" + ",".join(SOURCES) + "}")      # raises TranslateError on anything unrecognised
    dg, per = R.digest(p["files"])
    changed = R.write_if_changed(os.path.join(gen_dir, "Soc.v"), render(p))
    s = p["summary"]
    return {"ok": True,
            "msg": "Soc.v: as_soc_percent, soc_from_battery_and_delta, update_soc_percent; BEV default %s range %s..%s%s, PHEV default %s range %s..%s%s%s"
                   % (s["bev"][0], s["bev"][1], "=" if s["bev"][3] else "", s["bev"][2], s["phev"][0], s["phev"][1], "=" if s["phev"][3] else "",
                      s["phev"][2], " (rewritten)" if changed else " (unchanged)"),
            "digest": dg, "files": per, "changed": changed}


if __name__ == "__main__":
    r = generate(sys.argv[1] if len(sys.argv) > 1 else "/repo", sys.argv[2] if len(sys.argv) > 2 else "/tmp/tr2/gen")
    print(r["msg"])
