"""Translator for the state-feature vocabulary of the state model (property C11).

Reads, under <repo>/rust/routee-compass-core/src/model/:
  * state/custom_feature_format.rs   : `enum CustomFeatureFormat` and the arms of `initial`, `encode_f64/i64/u64/bool`,
                                       `decode_f64/i64/u64/bool` (which variant each one accepts, the value expression
                                       with its `as` casts and literals, the error variant otherwise),
  * state/state_feature.rs           : `enum StateFeature`, the arms of the hand-written `PartialEq::eq`, of
                                       `get_feature_type`, `get_initial`, `get_distance_unit`, `get_time_unit`,
                                       `get_energy_unit`, `get_custom_feature_format`,
  * state/update_operation.rs        : `enum UpdateOperation` and `perform_operation`,
  * traversal/state/state_variable.rs: the literals of `StateVar::ZERO` / `StateVar::ONE`,
and writes <gen_dir>/StateFeature.v: two inductive types with one constructor per Rust variant, one Gallina function per
Rust function.  Errors are `Err "<StateModelError variant>"`.  The three unit types are type parameters; the casts
`<integer> as f64`, `<f64> as i64`, `<f64> as u64` are Section variables (instantiated in the agreement file with the
model's `of_int` and its saturating truncations).

The tie to the proofs: coq/Props/GenStateFeature.v proves, for ALL inputs, that the corresponding functions of
coq/Model/StateModel.v equal the generated ones and that the enums have the same variants; the lemmas are proof
obligations of C11 (checks/c11.py).

The output is not trusted on faith: the `state` stream of checks/c11.py executes coq/Model/StateModel.v (proved equal
to these definitions) against the real StateModel API -- every typed getter / setter on every feature kind, initial
states of all four custom formats including the integer range boundaries, and feature equality through `extend`.

Deliberately narrow, FAILS CLOSED (TranslateError naming file:line).  Local names, white space, comments do not matter.
"""
import os
import sys

sys.path.insert(0, os.path.dirname(os.path.abspath(__file__)))
import rsparse as R  # noqa: E402
from rsparse import TranslateError  # noqa: E402

CORE = "rust/routee-compass-core/src/model"
SOURCES = ["state/custom_feature_format.rs", "state/state_feature.rs", "state/update_operation.rs", "traversal/state/state_variable.rs"]

FIELD_TYPES = {
    "OrderedFloat<f64>": ("A", "num"), "f64": ("A", "num"), "i64": ("Z", "int"), "u64": ("Z", "int"), "bool": ("bool", "bool"),
    "String": ("string", "str"),
    "unit::DistanceUnit": ("DU", "du"), "unit::TimeUnit": ("TU", "tu"), "unit::EnergyUnit": ("EU", "eu"),
    "unit::Distance": ("A", "num"), "unit::Time": ("A", "num"), "unit::Energy": ("A", "num"),
    "CustomFeatureFormat": ("CustomFeatureFormat A", "fmt"),
}
COQ_OF_TAG = {"num": "N", "int": "Z", "bool": "bool", "str": "string", "du": "DU", "tu": "TU", "eu": "EU",
              "fmt": "CustomFeatureFormat N", "feat": "StateFeature N DU TU EU", "op": "UpdateOperation"}
RET_TYPES = {
    "String": "str", "bool": "bool", "CustomFeatureFormat": "fmt", "StateVar": "num",
    "Result<StateVar,StateModelError>": ("res", "num"), "Result<f64,StateModelError>": ("res", "num"),
    "Result<i64,StateModelError>": ("res", "int"), "Result<u64,StateModelError>": ("res", "int"),
    "Result<bool,StateModelError>": ("res", "bool"),
    "Result<unit::DistanceUnit,StateModelError>": ("res", "du"), "Result<unit::TimeUnit,StateModelError>": ("res", "tu"),
    "Result<unit::EnergyUnit,StateModelError>": ("res", "eu"), "Result<&CustomFeatureFormat,StateModelError>": ("res", "fmt"),
}
PARAM_TYPES = {"&f64": "num", "&i64": "int", "&u64": "int", "&bool": "bool", "&StateVar": "num", "f64": "num"}
PREFIX = {"CustomFeatureFormat": "fmt", "StateFeature": "feat", "UpdateOperation": "op"}
SELF_TAG = {"CustomFeatureFormat": "fmt", "StateFeature": "feat", "UpdateOperation": "op"}


def v(name):
    return "v_" + name


class Comp:
    def __init__(self, f, enum, variants, fname, line, consts, sigs, errors):
        self.f, self.enum, self.variants, self.fname, self.line = f, enum, variants, fname, line
        self.consts, self.sigs, self.errors = consts, sigs, errors

    def err(self, msg):
        raise TranslateError("%s:%d: %s::%s: %s" % (self.f.path, self.line, self.enum, self.fname, msg))

    def val(self, e, env):
        """(gallina text, tag)"""
        k = e[0]
        if k == "path":
            s = e[1]
            if len(s) == 1 and s[0] in env:
                return env[s[0]]
            if len(s) == 2 and s[0] == "StateVar" and s[1] in self.consts:
                m, x = self.consts[s[1]]
                return "(lit %s %s)" % (R.coq_z(m), R.coq_z(x)), "num"
            self.err("unrecognised name `%s`" % "::".join(s))
        if k == "num":
            if not R.is_float_literal(e[1]):
                self.err("integer literal `%s` outside a cast" % e[1])
            m, x = R.float_literal(e[1], self.f.path)
            return "(lit %s %s)" % (R.coq_z(m), R.coq_z(x)), "num"
        if k == "bool":
            return ("true" if e[1] else "false"), "bool"
        if k == "unary" and e[1] in ("*", "&"):
            return self.val(e[2], env)
        if k == "unary" and e[1] == "!":
            t, tag = self.val(e[2], env)
            if tag != "bool":
                self.err("`!` on a %s" % tag)
            return "(negb %s)" % t, "bool"
        if k == "field" and e[2] == "0":
            t, tag = self.val(e[1], env)
            if tag != "num":
                self.err("`.0` on a %s" % tag)
            return t, tag
        if k == "call" and e[1][0] == "path" and e[1][1] in (["StateVar"], ["OrderedFloat"]) and len(e[2]) == 1:
            t, tag = self.val(e[2][0], env)
            if tag != "num":
                self.err("%s(..) of a %s" % (e[1][1][0], tag))
            return t, "num"
        if k == "cast":
            t, tag = self.val(e[1], env)
            if e[2] == "f64" and tag == "int":
                return "(of_int %s)" % t, "num"
            if e[2] == "f64" and tag == "num":
                return t, "num"
            if e[2] in ("i64", "u64") and tag == "num":
                return "(cast_%s %s)" % (e[2], t), "int"
            self.err("cast of a %s to %s is outside the translated subset" % (tag, e[2]))
        if k == "mcall" and e[2] in ("into", "clone", "to_owned") and not e[3]:
            return self.val(e[1], env)
        if k == "call" and e[1] == ("path", ["String", "from"]) and len(e[2]) == 1 and e[2][0][0] == "str":
            return R.coq_string(e[2][0][1]), "str"
        if k == "call" and e[1] == ("path", ["Ok"]) and len(e[2]) == 1:
            t, tag = self.val(e[2][0], env)
            return "(Ok %s)" % t, ("res", tag)
        if k == "call" and e[1] == ("path", ["Err"]) and len(e[2]) == 1:
            x = e[2][0]
            if x[0] == "call" and x[1][0] == "path" and len(x[1][1]) == 2 and x[1][1][0] == "StateModelError" and x[1][1][1] in self.errors:
                return '(Err "%s")' % x[1][1][1], ("res", None)
            self.err("Err(..) of something else than a StateModelError variant")
        if k == "mcall" and e[1] == ("path", ["self"]) and (self.enum, e[2]) in self.sigs:
            ptags, rtag = self.sigs[(self.enum, e[2])]
            return self.call(self.enum, e[2], env["self"][0], e[3], ptags, env), rtag
        if k == "mcall" and e[1][0] == "path" and len(e[1][1]) == 1 and e[1][1][0] in env and env[e[1][1][0]][1] == "fmt" \
                and ("CustomFeatureFormat", e[2]) in self.sigs:
            ptags, rtag = self.sigs[("CustomFeatureFormat", e[2])]
            return self.call("CustomFeatureFormat", e[2], env[e[1][1][0]][0], e[3], ptags, env), rtag
        if k == "bin" and e[1] in ("<", "<=", ">", ">=", "==", "!=", "&&", "||"):
            a, ta = self.val(e[2], env)
            b, tb = self.val(e[3], env)
            if ta != tb:
                self.err("`%s` between a %s and a %s" % (e[1], ta, tb))
            if e[1] in ("&&", "||") and ta == "bool":
                return "(%s %s %s)" % ("andb" if e[1] == "&&" else "orb", a, b), "bool"
            if ta == "num":          # f64 / StateVar: the IEEE partial order
                t = {"<": "(ltb %s %s)" % (a, b), "<=": "(leb %s %s)" % (a, b), ">": "(ltb %s %s)" % (b, a), ">=": "(leb %s %s)" % (b, a),
                     "==": "(eqb %s %s)" % (a, b), "!=": "(negb (eqb %s %s))" % (a, b)}.get(e[1])
                if t:
                    return t, "bool"
            if ta == "str" and e[1] in ("==", "!="):
                t = "(String.eqb %s %s)" % (a, b)
                return (t if e[1] == "==" else "(negb %s)" % t), "bool"
            self.err("`%s` on %s is outside the translated subset" % (e[1], ta))
        if k == "if" and e[3] is not None and e[1][0] != "let":
            c, tc = self.val(e[1], env)
            if tc != "bool":
                self.err("condition is a %s" % tc)
            a, ta = self.val(e[2], env)
            b, tb = self.val(e[3], env)
            return "(if %s then %s else %s)" % (c, a, b), self.join(ta, tb)
        if k == "block":
            env = dict(env)
            out = []
            for s in e[1]:
                if s[0] != "let" or s[1][0] != "pid" or s[3] is None or s[4]:
                    self.err("unrecognised statement %r" % (s if len(repr(s)) < 160 else repr(s)[:160],))
                t, tag = self.val(s[3], env)
                out.append("let %s := %s in " % (v(s[1][1]), t))
                env[s[1][1]] = (v(s[1][1]), tag)
            if e[2] is None:
                self.err("a block without a value")
            t, tag = self.val(e[2], env)
            return ("(" + "".join(out) + t + ")") if out else t, tag
        if k == "struct" and e[1][0] in ("Self", self.enum) and len(e[1]) == 2:
            vmap = {vn: (kind, fields) for vn, kind, fields in self.variants}
            if e[1][1] not in vmap or vmap[e[1][1]][0] != "struct":
                self.err("unknown struct variant %s" % e[1][1])
            given = dict(e[2])
            args = []
            for fn_, ft in vmap[e[1][1]][1]:
                if fn_ not in given:
                    self.err("field %s missing" % fn_)
                t, tag = self.val(given[fn_], env)
                if tag != FIELD_TYPES[ft][1]:
                    self.err("field %s is a %s" % (fn_, tag))
                args.append(t)
            return "(%s_%s %s)" % (self.enum, e[1][1], " ".join(args)), SELF_TAG[self.enum]
        self.err("unrecognised expression %r" % (e if len(repr(e)) < 200 else repr(e)[:200],))

    def join(self, a, b):
        if a == b:
            return a
        if isinstance(a, tuple) and isinstance(b, tuple) and a[0] == b[0] == "res":
            if a[1] is None:
                return b
            if b[1] is None or a[1] == b[1]:
                return a
        self.err("branches of different kinds: %s / %s" % (a, b))

    def call(self, enum, fname, recv, args, ptags, env):
        if len(args) != len(ptags):
            self.err("call of %s with %d arguments" % (fname, len(args)))
        out = []
        for a, tag in zip(args, ptags):
            t, ta = self.val(a, env)
            if ta != tag:
                self.err("argument of %s is a %s, expected %s" % (fname, ta, tag))
            out.append(t)
        return "(%s_%s %s%s)" % (PREFIX[enum], fname, recv, "".join(" " + x for x in out))

    def bind_variant(self, pat, env, enum=None, variants=None):
        """pattern of one variant -> Coq pattern text; binds names into env"""
        enum = enum or self.enum
        variants = variants or self.variants
        vmap = {vn: (kind, fields) for vn, kind, fields in variants}
        if pat[0] == "pwild":
            return "_"
        if pat[0] not in ("ppath", "pstruct", "pts") or len(pat[1]) != 2 or pat[1][0] not in (enum, "Self") or pat[1][1] not in vmap:
            self.err("unrecognised variant pattern %r" % (pat[:2],))
        vn = pat[1][1]
        kind, fields = vmap[vn]
        if kind == "unit":
            if pat[0] != "ppath":
                self.err("unit variant %s matched with fields" % vn)
            return "%s_%s" % (enum, vn)
        if kind != "struct" or pat[0] != "pstruct":
            self.err("variant %s: only struct variants are translated" % vn)
        given = dict(pat[2])
        for fn_ in given:
            if fn_ not in [x[0] for x in fields]:
                self.err("variant %s has no field %s" % (vn, fn_))
        if not pat[3] and len(given) != len(fields):
            self.err("variant %s: not every field is matched" % vn)
        bs = []
        for fn_, ft in fields:
            p = given.get(fn_, ("pwild",))
            if p[0] == "pref":
                p = p[1]
            if p[0] == "pwild":
                bs.append("_")
            elif p[0] == "pid":
                env[p[1]] = (v(p[1]), FIELD_TYPES[ft][1])
                bs.append(v(p[1]))
            else:
                self.err("unrecognised field pattern %r" % (p,))
        return "%s_%s %s" % (enum, vn, " ".join(bs))


def render_enum(f, name, variants, line, params):
    L = ["Inductive %s %s: Type :=" % (name, params)] if params else ["Inductive %s : Set :=" % name]
    for vn, kind, fields in variants:
        if kind == "tuple":
            raise TranslateError("%s:%d: enum %s: tuple variant %s is outside the translated subset" % (f.path, line, name, vn))
        args = []
        for fn_, ft in fields:
            if ft not in FIELD_TYPES:
                raise TranslateError("%s:%d: enum %s: field type %s is outside the translated subset" % (f.path, line, name, ft))
            args.append(" (%s : %s)" % (fn_ if fn_ != "type" else "type_", FIELD_TYPES[ft][0]))
        L.append("| %s_%s%s" % (name, vn, "".join(args)))
    L[-1] += "."
    if params:
        imp = " ".join("{%s}" % p for p in params.replace("(", "").replace(")", "").replace(": Type", "").split())
        for vn, kind, fields in variants:
            L.append("Arguments %s_%s %s%s." % (name, vn, imp, " _" * len(fields)))
    return "\n".join(L)


def compile_fn(f, enum, variants, rng, fname, consts, sigs, errors, two_self=False):
    params, ret, body, line = f.fn(fname, rng)
    c = Comp(f, enum, variants, fname, line, consts, sigs, errors)
    if ret not in RET_TYPES:
        c.err("return type %s is outside the translated subset" % ret)
    rtag = RET_TYPES[ret]
    if not params or params[0][0] != "self":
        c.err("expected `&self`")
    env = {"self": ("self", SELF_TAG[enum])}
    sig, ptags = [], []
    for pn, pt in params[1:]:
        if two_self and pt == "&Self":
            tag = SELF_TAG[enum]
        elif pt in PARAM_TYPES:
            tag = PARAM_TYPES[pt]
        else:
            c.err("parameter `%s: %s` is outside the translated subset" % (pn, pt))
        env[pn] = (v(pn), tag)
        sig.append(" (%s : %s)" % (v(pn), COQ_OF_TAG[tag]))
        ptags.append(tag)
    m = body[2]
    if body[1] or not m:
        c.err("the body is not a single expression")
    if m[0] == "match" and m[1] == ("path", ["self"]):
        arms = []
        for pat, guard, val in m[2]:
            if guard is not None:
                c.err("match guards are outside the translated subset")
            env2 = dict(env)
            head = c.bind_variant(pat, env2)
            t, tag = c.val(val, env2)
            rt = c.join(rtag, tag) if isinstance(rtag, tuple) else (rtag if tag == rtag else c.err("arm is a %s, expected %s" % (tag, rtag)))
            arms.append("    | %s => %s" % (head, t))
        text = "    match self with\n%s\n    end" % "\n".join(arms)
    elif m[0] == "match" and two_self and m[1][0] == "tuple" and m[1][1] == [("path", ["self"]), ("path", [params[1][0]])]:
        arms = []
        for pat, guard, val in m[2]:
            if guard is not None:
                c.err("match guards are outside the translated subset")
            env2 = dict(env)
            if pat[0] == "pwild":
                head = "_, _"
            elif pat[0] == "ptuple" and len(pat[1]) == 2:
                head = "%s, %s" % (c.bind_variant(pat[1][0], env2), c.bind_variant(pat[1][1], env2))
            else:
                c.err("unrecognised arm pattern")
            t, tag = c.val(val, env2)
            if tag != rtag:
                c.err("arm is a %s, expected %s" % (tag, rtag))
            arms.append("    | %s => %s" % (head, t))
        text = "    match self, %s with\n%s\n    end" % (v(params[1][0]), "\n".join(arms))
    else:
        t, tag = c.val(m, env)
        if tag != rtag:
            c.err("the body is a %s, expected %s" % (tag, rtag))
        text = "    " + t
    coq_ret = ("res %s" % (COQ_OF_TAG[rtag[1]] if " " not in COQ_OF_TAG[rtag[1]] else "(%s)" % COQ_OF_TAG[rtag[1]])) if isinstance(rtag, tuple) else COQ_OF_TAG[rtag]
    sigs[(enum, fname)] = (ptags, rtag)
    return "  (* %s::%s *)\n  Definition %s_%s (self : %s)%s : %s :=\n%s.\n" % (
        enum, fname, PREFIX[enum], fname, COQ_OF_TAG[SELF_TAG[enum]], "".join(sig), coq_ret, text)


PREAMBLE = """(* GENERATED by translator/tr_statefeature.py from %s/{%s} -- do not edit.
   One constructor per Rust variant (fields in declaration order), one function per Rust function; `Err "<V>"` is
   Err(StateModelError::<V>(..)); Rust locals `x` are `v_x`.  Agreement with the hand-written model: Props/GenStateFeature.v. *)
From Coq Require Import ZArith String List Bool.
From RC Require Import Base.Num Base.Res.
Open Scope string_scope.

Module StateFeature.

"""


def parse_all(repo):
    fc = R.File(repo, os.path.join(CORE, SOURCES[0]))
    ff = R.File(repo, os.path.join(CORE, SOURCES[1]))
    fu = R.File(repo, os.path.join(CORE, SOURCES[2]))
    fs = R.File(repo, os.path.join(CORE, SOURCES[3]))
    fe = R.File(repo, os.path.join(CORE, "state/state_model_error.rs"))
    errors = [vn for vn, _, _ in fe.enum("StateModelError")[0]]
    # StateVar::{ZERO, ONE}
    rng = fs.impl_range("StateVar")
    consts = {}
    for name in ("ZERO", "ONE"):
        ty, e, line = fs.const(name, rng[0], rng[1])
        if ty != "StateVar" or not (e[0] == "call" and e[1] == ("path", ["StateVar"]) and len(e[2]) == 1 and e[2][0][0] == "num"):
            fs.err(line, "StateVar::%s is not `StateVar(<literal>)`" % name)
        consts[name] = R.float_literal(e[2][0][1], fs.path)
    L = []
    cvars, cline = fc.enum("CustomFeatureFormat")
    fvars, fline = ff.enum("StateFeature")
    uvars, uline = fu.enum("UpdateOperation")
    L.append(render_enum(fc, "CustomFeatureFormat", cvars, cline, "(A : Type) "))
    L.append("")
    L.append(render_enum(ff, "StateFeature", fvars, fline, "(A DU TU EU : Type) "))
    L.append("")
    L.append(render_enum(fu, "UpdateOperation", uvars, uline, ""))
    L.append("")
    L.append("Section Fns.")
    L.append("  Variable N : Num.")
    L.append("  Variables DU TU EU : Type.          (* unit::DistanceUnit, unit::TimeUnit, unit::EnergyUnit *)")
    L.append("  Variable of_int : Z -> N.           (* <i64 | u64> as f64 *)")
    L.append("  Variable cast_i64 : N -> Z.         (* <f64> as i64 (saturating, NaN -> 0) *)")
    L.append("  Variable cast_u64 : N -> Z.         (* <f64> as u64 (saturating, NaN -> 0) *)")
    L.append("")
    sigs = {}
    crng = fc.impl_range("CustomFeatureFormat")
    names = []
    for fname in ("encode_f64", "encode_i64", "encode_u64", "encode_bool", "initial", "decode_f64", "decode_i64", "decode_u64", "decode_bool"):
        L.append(compile_fn(fc, "CustomFeatureFormat", cvars, crng, fname, consts, sigs, errors))
        names.append("CustomFeatureFormat::" + fname)
    frng = ff.impl_range("StateFeature")
    prng = ff.impl_range("StateFeature", trait="PartialEq")
    L.append(compile_fn(ff, "StateFeature", fvars, prng, "eq", consts, sigs, errors, two_self=True))
    names.append("StateFeature::eq")
    for fname in ("get_feature_type", "get_initial", "get_distance_unit", "get_time_unit", "get_energy_unit", "get_custom_feature_format"):
        L.append(compile_fn(ff, "StateFeature", fvars, frng, fname, consts, sigs, errors))
        names.append("StateFeature::" + fname)
    # UpdateOperation::perform_operation(&self, _prev: &StateVar, next: &StateVar) -> StateVar
    urng = fu.impl_range("UpdateOperation")
    L.append(compile_fn(fu, "UpdateOperation", uvars, urng, "perform_operation", consts, sigs, errors))
    names.append("UpdateOperation::perform_operation")
    L.append("End Fns.")
    body = "\n".join(L)
    # inside the Section the inductives are used at N / DU / TU / EU
    return {"files": [fc, ff, fu, fs, fe], "body": body, "names": names,
            "enums": {"CustomFeatureFormat": [x[0] for x in cvars], "StateFeature": [x[0] for x in fvars], "UpdateOperation": [x[0] for x in uvars]}}


def render(p):
    return PREAMBLE % (CORE, ",".join(SOURCES)) + p["body"] + "\n\nEnd StateFeature.\n"


def generate(repo, gen_dir):
    p = R.fail_closed(parse_all, repo, CORE + "/{" + ",".join(SOURCES) + "}")      # raises TranslateError on anything unrecognised
    dg, per = R.digest(p["files"])
    changed = R.write_if_changed(os.path.join(gen_dir, "StateFeature.v"), render(p))
    return {"ok": True,
            "msg": "StateFeature.v: %s; %d functions%s" % ("; ".join("%s {%s}" % (k, ", ".join(vs)) for k, vs in p["enums"].items()),
                                                          len(p["names"]), " (rewritten)" if changed else " (unchanged)"),
            "digest": dg, "files": per, "changed": changed}


if __name__ == "__main__":
    r = generate(sys.argv[1] if len(sys.argv) > 1 else "/repo", sys.argv[2] if len(sys.argv) > 2 else "/tmp/tr2/gen")
    print(r["msg"])
