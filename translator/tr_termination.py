"""Translator for the termination model (property C10).

Reads <repo>/rust/routee-compass-core/src/model/termination/termination_model.rs:
  * `enum TerminationModel` (variants and field types),
  * `TerminationModel::terminate_search`: per variant which quantity is compared with the limit and with which
    operator (`dur > *limit`, `solution_size > *limit`, `iteration + 1 > *limit`), the frequency test
    `iteration % frequency == 0` in front of the clock read (u64 `%`: a zero divisor panics), `Combined` as the
    `try_fold(false, |acc, m| ..map(|r| acc || r))` over every inner model,
  * `TerminationModel::explain_termination`: `terminate_search(..).unwrap_or(false)`, the `format!` template of each leaf,
    the `filter_map` / `join(", ")` / `is_empty` of `Combined`,
  * `TerminationModel::test`: terminate -> explain -> `Err(QueryTerminated(msg))` / `Err(RuntimeError(..))`, else `Ok(())`,
and writes <gen_dir>/TerminationModel.v: the inductive type and the three functions over the outcome monad `res`.
Durations and counters are binary naturals; `&Instant` parameters stand for what a clock read
`Instant::now().duration_since(*start_time)` returns during the call; `Duration::hhmmss`, `Display` of integers and the
text of an error are Section variables.  `#[cfg(compass_verif)]` statements (hook H2) are ignored.

The tie to the proofs: coq/Props/GenTermination.v proves, for ALL models, clocks and counters, that
TM.terminate_search, TM.explain and TM.test of coq/Model/Termination.v equal the generated functions; the lemmas are
proof obligations of C10 (checks/c10.py).

The output is not trusted on faith: the `limits` and `pred` streams of checks/c10.py execute coq/Model/Termination.v (proved equal
to these definitions) against the real TerminationModel::test / terminate_search / explain_termination under hook H2's
scripted clock, including limits hit exactly, frequency boundaries and nested Combined models.

Deliberately narrow, FAILS CLOSED (TranslateError naming file:line).  Local names, white space, comments do not matter.
"""
import os
import sys

sys.path.insert(0, os.path.dirname(os.path.abspath(__file__)))
import rsparse as R  # noqa: E402
from rsparse import TranslateError  # noqa: E402
from rsmonad import Monadic, v  # noqa: E402

SRC = "rust/routee-compass-core/src/model/termination/termination_model.rs"
ENUM = "TerminationModel"
FIELD = {"Duration": "n", "u64": "n", "usize": "n", "Vec<TerminationModel>": "list_self", "Vec<Self>": "list_self"}
PARAM = {"&Instant": "instant", "usize": "n", "u64": "n"}
COQ = {"n": "N", "instant": "N", "self": ENUM, "list_self": "list " + ENUM, "bool": "bool"}
FNS = {"terminate_search": ("res", "bool"), "explain_termination": ("res", ("option", "str")), "test": ("res", "unit")}
ERRORS = ("QueryTerminated", "RuntimeError")


class TermFn(Monadic):
    def __init__(self, f, variants, fname, params, ret, body, line):
        Monadic.__init__(self, f, "%s::%s (line %d)" % (ENUM, fname, line))
        self.variants, self.fname, self.params, self.ret, self.body = variants, fname, params, ret, body
        self.alias = {ENUM, "Self"}
        self.value_mode = not (ret or "").startswith("Result<")
        self.ptags = []
        for pn, pt in params[1:]:
            if pt not in PARAM:
                self.err("parameter `%s: %s` is outside the translated subset" % (pn, pt))
            self.ptags.append((pn, PARAM[pt]))

    # ---- calls of the three translated functions on self / an inner model
    def method_call(self, e, env):
        if e[0] == "mcall" and e[2] in FNS and e[1][0] == "path" and len(e[1][1]) == 1 and e[1][1][0] in env \
                and env[e[1][1][0]][1] == "self":
            if len(e[3]) != 3:
                self.err("call of %s with %d arguments" % (e[2], len(e[3])))
            args = []
            for a, want in zip(e[3], ("instant", "n", "n")):
                pre = []
                t, tag = self.pure(a, env, pre)
                if pre or tag != want:
                    self.err("argument of %s is a %s, expected %s" % (e[2], tag, want))
                args.append(t)
            return "(%s %s %s)" % (e[2], env[e[1][1][0]][0], " ".join(args)), FNS[e[2]]
        return None

    def comp_prim(self, e, env):
        r = self.method_call(e, env)
        if r is not None:
            return r
        k = e[0]
        # models.iter().try_fold(<init>, |acc, m| <computation>)
        if k == "mcall" and e[2] == "try_fold" and len(e[3]) == 2 and e[3][1][0] == "closure" and len(e[3][1][1]) == 2 \
                and e[1][0] == "mcall" and e[1][2] == "iter" and not e[1][3]:
            pre = []
            lst, ltag = self.pure(e[1][1], env, pre)
            init, itag = self.pure(e[3][0], env, pre)
            if pre or ltag != "list_self":
                self.err("`try_fold` over something else than the inner models")
            env2 = dict(env)
            pa, pb = e[3][1][1]
            if pa[0] != "pid" or pb[0] != "pid":
                self.err("unrecognised closure parameters of `try_fold`")
            env2[pa[1]] = (v(pa[1]), itag)
            env2[pb[1]] = (v(pb[1]), "self")
            body, btag = self.comp(e[3][1][2], env2)
            if btag != ("res", itag):
                self.err("the `try_fold` closure does not return the accumulator type")
            return "(try_fold (fun %s %s => %s) %s %s)" % (v(pa[1]), v(pb[1]), body, lst, init), ("res", itag)
        # match self { T::Variant { .. } => .. }
        if k == "match" and e[1] == ("path", ["self"]):
            return self.match_self(e, env)
        if self.value_mode and k not in ("if", "match", "block", "return", "call"):
            pre = []
            t, tag = self.pure(e, env, pre)
            return self.binds(pre, "(Ok %s)" % t), ("res", tag)
        if self.value_mode and k == "call" and e[1] in (("path", ["Some"]),):
            pre = []
            t, tag = self.pure(e, env, pre)
            return self.binds(pre, "(Ok %s)" % t), ("res", tag)
        if self.value_mode and k == "path":
            pre = []
            t, tag = self.pure(e, env, pre)
            return "(Ok %s)" % t, ("res", tag)
        return None

    def match_self(self, e, env):
        vmap = {vn: fields for vn, kind, fields in self.variants}
        arms, seen, rtag = [], set(), ("res", None)
        for pat, guard, body in e[2]:
            if guard is not None:
                self.err("match guards are outside the translated subset")
            if pat[0] != "pstruct" or len(pat[1]) != 2 or pat[1][0] not in self.alias or pat[1][1] not in vmap:
                self.err("unrecognised variant pattern %r" % (pat[:2],))
            vn = pat[1][1]
            if vn in seen:
                self.err("variant %s matched twice" % vn)
            seen.add(vn)
            given = dict(pat[2])
            for g in given:
                if g not in [x[0] for x in vmap[vn]]:
                    self.err("variant %s has no field %s" % (vn, g))
            if not pat[3] and len(given) != len(vmap[vn]):
                self.err("variant %s: not every field is matched" % vn)
            env2 = dict(env)
            bs = []
            for fn_, ft in vmap[vn]:
                p = given.get(fn_, ("pwild",))
                if p[0] == "pwild":
                    bs.append("_")
                elif p[0] == "pid":
                    env2[p[1]] = (v(p[1]), FIELD[ft])
                    bs.append(v(p[1]))
                else:
                    self.err("unrecognised field pattern %r" % (p,))
            t, tag = self.comp(body, env2)
            rtag = self.join(rtag, tag)
            arms.append("\n      | %s_%s %s => %s" % (ENUM, vn, " ".join(bs), t))
        if seen != set(vmap):
            self.err("variants not matched: %s" % ", ".join(sorted(set(vmap) - seen)))
        return "(match self with%s\n      end)" % "".join(arms), rtag

    def fmt_macro(self, e, env, pre):
        """format!("text {} text", <expr>) -> string concatenation"""
        toks = e[2]
        if not toks or toks[0].kind != "str":
            self.err("format! without a literal template")
        tmpl = toks[0].val
        args, cur, depth = [], [], 0
        for t in toks[1:]:
            if t.kind == "p" and t.text in "([{":
                depth += 1
            elif t.kind == "p" and t.text in ")]}":
                depth -= 1
            if t.kind == "p" and t.text == "," and depth == 0:
                if cur:
                    args.append(cur)
                cur = []
            else:
                cur.append(t)
        if cur:
            args.append(cur)
        pieces = tmpl.split("{}")
        if len(pieces) != len(args) + 1 or any("{" in p or "}" in p for p in pieces):
            self.err("format template %r with %d arguments: only plain `{}` placeholders are translated" % (tmpl, len(args)))
        out = []
        for i, piece in enumerate(pieces):
            if piece:
                out.append(R.coq_string(piece))
            if i < len(args):
                p = R.Parser(args[i], self.f.path)
                ex = p.expr()
                if p.peek().kind != "eof":
                    self.err("unrecognised format! argument")
                t, tag = self.pure(ex, env, pre)
                out.append(t if tag == "str" else "(show_u64 %s)" % t if tag == "n" else self.err("format! of a %s" % (tag,)))
        return "(%s)" % " ++ ".join(out) if out else "EmptyString", "str"

    def prim(self, e, env, pre):
        k = e[0]
        if k == "tuple" and not e[1]:
            return "tt", "unit"
        if k == "num":
            if not e[1].replace("_", "").isdigit():
                self.err("literal `%s` is not a plain integer" % e[1])
            return "%s%%N" % e[1].replace("_", ""), "n"
        if k == "macro" and e[1] == "format":
            return self.fmt_macro(e, env, pre)
        # Instant::now().duration_since(*start_time)
        if k == "mcall" and e[2] == "duration_since" and e[1] == ("call", ("path", ["Instant", "now"]), []) and len(e[3]) == 1:
            t, tag = self.pure(e[3][0], env, pre)
            if tag != "instant":
                self.err("duration_since of a %s" % (tag,))
            return "(elapsed_since %s)" % t, "n"
        if k == "mcall" and e[2] == "hhmmss" and not e[3]:
            t, tag = self.pure(e[1], env, pre)
            if tag != "n":
                self.err("hhmmss of a %s" % (tag,))
            return "(hhmmss %s)" % t, "str"
        if k == "mcall" and e[2] == "is_empty" and not e[3]:
            t, tag = self.pure(e[1], env, pre)
            if tag != "str":
                self.err("is_empty of a %s" % (tag,))
            return "(str_is_empty %s)" % t, "bool"
        if k == "bin" and e[1] in ("+", "%", ">", ">=", "<", "<=", "=="):
            a, ta = self.pure(e[2], env, pre)
            b, tb = self.pure(e[3], env, pre)
            if ta != "n" or tb != "n":
                return None if e[1] in ("&&", "||") else self.err("`%s` on %s / %s" % (e[1], ta, tb))
            if e[1] == "+":
                return "(N.add %s %s)" % (a, b), "n"       # u64 / usize `+`: overflow is outside the model (see Model/Termination.v)
            if e[1] == "%":
                name = self.fresh()
                pre.append((name, "(u64_rem %s %s)" % (a, b)))
                return name, "n"
            return {">": "(N.ltb %s %s)" % (b, a), ">=": "(N.leb %s %s)" % (b, a), "<": "(N.ltb %s %s)" % (a, b),
                    "<=": "(N.leb %s %s)" % (a, b), "==": "(N.eqb %s %s)" % (a, b)}[e[1]], "bool"
        # <fallible call>.unwrap_or(<default>)
        if k == "mcall" and e[2] == "unwrap_or" and len(e[3]) == 1:
            r = self.method_call(e[1], env)
            if r is None:
                self.err("`.unwrap_or` on something else than a call of a translated function")
            d, dtag = self.pure(e[3][0], env, pre)
            if r[1] != ("res", dtag):
                self.err("`.unwrap_or` default of the wrong kind")
            name = self.fresh()
            pre.append((name, "(unwrap_or %s %s)" % (r[0], d)))
            return name, dtag
        # an Option-returning translated function called as a value (it can still panic: bound in the monad)
        r = self.method_call(e, env)
        if r is not None and e[2] == "explain_termination":
            name = self.fresh()
            pre.append((name, r[0]))
            return name, r[1][1]
        # models.iter().filter_map(|m| m.explain_termination(..)).collect::<Vec<_>>().join("<sep>")
        if k == "mcall" and e[2] == "join" and len(e[3]) == 1 and e[3][0][0] == "str":
            c = e[1]
            if c[0] == "mcall" and c[2] == "collect" and not c[3]:
                c = c[1]
            ok = (c[0] == "mcall" and c[2] == "filter_map" and len(c[3]) == 1 and c[3][0][0] == "closure" and len(c[3][0][1]) == 1
                  and c[3][0][1][0][0] == "pid" and c[1][0] == "mcall" and c[1][2] == "iter" and not c[1][3])
            if not ok:
                self.err("`.join` on something else than `<models>.iter().filter_map(|m| ..).collect()`")
            lst, ltag = self.pure(c[1][1], env, pre)
            if ltag != "list_self":
                self.err("`filter_map` over something else than the inner models")
            env2 = dict(env)
            m = c[3][0][1][0][1]
            env2[m] = (v(m), "self")
            r = self.method_call(c[3][0][2], env2)
            if r is None or r[1] != ("res", ("option", "str")):
                self.err("the `filter_map` closure is not a call of explain_termination")
            name = self.fresh("parts")
            pre.append((name, "(filter_map_res (fun %s => %s) %s)" % (v(m), r[0], lst)))
            return "(join %s %s)" % (R.coq_string(e[3][0][1]), name), "str"
        return None

    def err_class(self, e):
        if e[0] == "call" and e[1][0] == "path" and len(e[1][1]) == 2 and e[1][1][0] == "TerminationModelError" and e[1][1][1] in ERRORS \
                and len(e[2]) == 1:
            a = e[2][0]
            if a[0] == "path" and len(a[1]) == 1:
                return '(err_text "%s" (Some %s))' % (e[1][1][1], v(a[1][0]))
            if a[0] == "macro" and a[1] == "format":
                return '(err_text "%s" None)' % e[1][1][1]     # a diagnostic text that is not modelled
        self.err("Err(..) of something else than TerminationModelError::{%s}" % ", ".join(ERRORS))

    def stmt(self, s, rest, tail, env):
        if s[0] == "use":
            if s[1] == [ENUM]:
                self.alias.add(s[2])
                return self.comp_block(rest, tail, env)
            self.err("`use %s` inside the body" % "::".join(s[1]))
        return None

    def compile(self):
        env = {"self": ("self", "self")}
        for pn, tag in self.ptags:
            env[pn] = (v(pn), tag)
        t, tag = self.comp_block(self.body[1], self.body[2], env)
        if tag != FNS[self.fname]:
            self.err("the body is a %s, expected %s" % (tag, FNS[self.fname]))
        rec = ("(%s " % self.fname) in t
        ret = {"bool": "bool", ("option", "str"): "(option string)", "unit": "unit"}[FNS[self.fname][1]]
        return "  (* %s::%s *)\n  %s %s (self : %s)%s%s : res %s :=\n    %s.\n" % (
            ENUM, self.fname, "Fixpoint" if rec else "Definition", self.fname, ENUM,
            "".join(" (%s : %s)" % (v(pn), COQ[tag]) for pn, tag in self.ptags), " {struct self}" if rec else "", ret, t)


PREAMBLE = """(* GENERATED by translator/tr_termination.py from %s -- do not edit.
   Durations (ns) and counters are binary naturals; a `&Instant` parameter v_start_time stands for what the clock read
   `Instant::now().duration_since( *start_time )` returns during this call; Rust locals `x` are `v_x`, hoisted fallible
   sub-expressions are `r<n>_`.  Agreement with the hand-written model: Props/GenTermination.v. *)
From Coq Require Import NArith List String Bool.
From RC Require Import Base.Show Base.Res.
Import ListNotations.
Open Scope string_scope.

Module TerminationModel.

(* ---- fixed vocabulary (what the translator assumes about std / core, not derived from the source) ---- *)
(* u64 `%%`: a zero divisor panics *)
Definition u64_rem (a b : N) : res N :=
  if N.eqb b 0 then Panic "attempt to calculate the remainder with a divisor of zero" else Ok (N.modulo a b).
(* Iterator::try_fold on a Result-returning closure: left to right, the first Err / panic stops it.
   (the closure is a parameter OUTSIDE the fixpoint, so that a recursive call inside it passes the guard check) *)
Section TryFold.
  Context {A B : Type}.
  Variable f : B -> A -> res B.
  Fixpoint try_fold (l : list A) (acc : B) : res B :=
    match l with
    | [] => Ok acc
    | a :: r => do acc' <- f acc a; try_fold r acc'
    end.
End TryFold.
(* Iterator::filter_map(..).collect::<Vec<_>>() on a closure that can panic *)
Section FilterMap.
  Context {A B : Type}.
  Variable f : A -> res (option B).
  Fixpoint filter_map_res (l : list A) : res (list B) :=
    match l with
    | [] => Ok []
    | a :: r => do x <- f a; do rest <- filter_map_res r; Ok (match x with Some b => b :: rest | None => rest end)
    end.
End FilterMap.
(* Result::unwrap_or: an Err becomes the default; a panic is not a Result *)
Definition unwrap_or {A : Type} (r : res A) (d : A) : res A :=
  match r with Ok a => Ok a | Err _ => Ok d | Panic w => Panic w | OutOfFuel => OutOfFuel end.
Definition str_is_empty (s : string) : bool := match s with EmptyString => true | _ => false end.
Definition elapsed_since (reading : N) : N := reading.

(* ---- generated from the source ---- *)
"""


def parse_all(repo):
    f = R.File(repo, SRC)
    variants, line = f.enum(ENUM)
    L = ["Inductive %s : Set :=" % ENUM]
    for vn, kind, fields in variants:
        if kind != "struct":
            f.err(line, "variant %s is not a struct variant" % vn)
        args = []
        for fn_, ft in fields:
            if ft not in FIELD:
                f.err(line, "field type %s is outside the translated subset" % ft)
            args.append(" (%s : %s)" % (fn_, COQ[FIELD[ft]]))
        L.append("| %s_%s%s" % (ENUM, vn, "".join(args)))
    L[-1] += "."
    L.append("")
    L.append("Section Fns.")
    L.append("  Variable hhmmss : N -> string.                          (* Duration::hhmmss *)")
    L.append("  Variable show_u64 : N -> string.                        (* Display of u64 / usize *)")
    L.append("  Variable err_text : string -> option string -> string.  (* TerminationModelError::<variant>(<message, when it is the explanation>) *)")
    L.append("")
    rng = f.impl_range(ENUM)
    for fname in ("terminate_search", "explain_termination", "test"):
        params, ret, body, fline = f.fn(fname, rng)
        fn = TermFn(f, variants, fname, params, ret, body, fline)
        if [t for _, t in fn.ptags] != ["instant", "n", "n"]:
            fn.err("expected the parameters (&Instant, usize, u64)")
        L.append(fn.compile())
    L.append("End Fns.")
    return {"files": [f], "body": "\n".join(L), "variants": [x[0] for x in variants]}


def render(p):
    return PREAMBLE % SRC + p["body"] + "\n\nEnd TerminationModel.\n"


def generate(repo, gen_dir):
    p = R.fail_closed(parse_all, repo, SRC)
    dg, per = R.digest(p["files"])
    changed = R.write_if_changed(os.path.join(gen_dir, "TerminationModel.v"), render(p))
    return {"ok": True, "msg": "TerminationModel.v: %s {%s}; terminate_search, explain_termination, test%s"
            % (ENUM, ", ".join(p["variants"]), " (rewritten)" if changed else " (unchanged)"),
            "digest": dg, "files": per, "changed": changed}


if __name__ == "__main__":
    r = generate(sys.argv[1] if len(sys.argv) > 1 else "/repo", sys.argv[2] if len(sys.argv) > 2 else "/tmp/tr3/gen")
    print(r["msg"])
