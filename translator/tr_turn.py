"""Translator for the turn classification of the turn-delay access model (property C03).

Reads, under <repo>/rust/routee-compass-core/src/model/access/default/turn_delays/:
  * turn.rs          : the variants of `enum Turn` (declaration order) and the arms of `Turn::from_angle`
                       (`lo..=hi => Ok(Turn::X)`, in source order, and the final `_ => Err(..)`),
  * edge_heading.rs  : the body of `EdgeHeading::bearing_to_destination`
                       (`let angle = destination.start_heading() - self.end_heading();
                         if angle > A { angle - B } else if angle < C { angle + D } else { angle }`)
and writes <gen_dir>/TurnTable.v: the variant names, the (lo, hi, variant) rows exactly as written, and the
four constants / two comparison operators of the wrap.  coq/Model/Traversal.v is written against these
names, so the theorems of Props/C03.v about the classification are re-checked against what the source says now.

Deliberately narrow, FAILS CLOSED: anything it does not recognise raises TranslateError naming the file.
"""
import hashlib
import os
import re

DIR = "rust/routee-compass-core/src/model/access/default/turn_delays"
SOURCE_FILES = ["turn.rs", "edge_heading.rs"]


class TranslateError(Exception):
    pass


def strip_comments(src):
    out, i, n = [], 0, len(src)
    while i < n:
        if src.startswith("//", i):
            while i < n and src[i] != "\n":
                i += 1
        elif src.startswith("/*", i):
            j = src.find("*/", i + 2)
            if j < 0:
                raise TranslateError("unterminated block comment")
            out.append("\n" * src.count("\n", i, j))
            i = j + 2
        else:
            out.append(src[i])
            i += 1
    return "".join(out)


def read(repo, fname):
    p = os.path.join(repo, DIR, fname)
    if not os.path.exists(p):
        raise TranslateError("%s: file not found" % p)
    raw = open(p, "rb").read()
    return p, raw, strip_comments(raw.decode("utf-8"))


def body_of(text, start, path, what):
    """text of the brace block opening at the first `{` at or after `start`"""
    i = text.find("{", start)
    if i < 0:
        raise TranslateError("%s: no body for %s" % (path, what))
    depth, j = 0, i
    while j < len(text):
        if text[j] == "{":
            depth += 1
        elif text[j] == "}":
            depth -= 1
            if depth == 0:
                return text[i + 1:j]
        j += 1
    raise TranslateError("%s: unbalanced braces in %s" % (path, what))


def parse_turn(repo):
    path, raw, text = read(repo, "turn.rs")
    m = re.search(r"pub\s+enum\s+Turn\s*\{", text)
    if not m:
        raise TranslateError("%s: `pub enum Turn` not found" % path)
    variants = [v.strip() for v in body_of(text, m.start(), path, "enum Turn").split(",") if v.strip()]
    for v in variants:
        if not re.fullmatch(r"[A-Z][A-Za-z0-9]*", v):
            raise TranslateError("%s: unexpected enum variant text %r" % (path, v))
    if len(set(variants)) != len(variants) or not variants:
        raise TranslateError("%s: duplicate or no variants" % path)
    m = re.search(r"pub\s+fn\s+from_angle\s*\(\s*angle\s*:\s*i16\s*\)\s*->\s*Result\s*<\s*Self\s*,\s*AccessModelError\s*>", text)
    if not m:
        raise TranslateError("%s: `pub fn from_angle(angle: i16) -> Result<Self, AccessModelError>` not found" % path)
    fbody = body_of(text, m.end(), path, "from_angle")
    mm = re.fullmatch(r"\s*match\s+angle\s*\{(.*)\}\s*", fbody, re.S)
    if not mm:
        raise TranslateError("%s: from_angle is not a single `match angle { .. }`" % path)
    arms_txt = mm.group(1)
    # range arms, then the catch-all
    arm_re = re.compile(r"\s*(-?\d+)\s*\.\.(=?)\s*(-?\d+)\s*=>\s*Ok\s*\(\s*Turn::([A-Za-z0-9]+)\s*\)\s*,")
    pos, rows = 0, []
    while True:
        a = arm_re.match(arms_txt, pos)
        if not a:
            break
        lo, hi, v = int(a.group(1)), int(a.group(3)), a.group(4)
        if a.group(2) != "=":
            hi -= 1          # half-open `lo..hi`: the last value of the arm is hi - 1
        if hi < lo:
            pos = a.end()    # an empty range matches nothing
            continue
        if v not in variants:
            raise TranslateError("%s: arm names unknown variant %s" % (path, v))
        if not (-32768 <= lo <= 32767 and -32768 <= hi <= 32767):
            raise TranslateError("%s: arm bound outside i16" % path)
        rows.append((lo, hi, v))
        pos = a.end()
    rest = arms_txt[pos:]
    if not re.fullmatch(r"\s*_\s*=>\s*Err\s*\(\s*AccessModelError::RuntimeError\s*\{.*\}\s*\)\s*,?\s*", rest, re.S):
        raise TranslateError("%s: after %d range arms expected the single arm `_ => Err(AccessModelError::RuntimeError {..})`, found %r"
                             % (path, len(rows), rest.strip()[:80]))
    if not rows:
        raise TranslateError("%s: no range arms in from_angle" % path)
    return variants, rows, raw


CMP = {">": "WGt", ">=": "WGe", "<": "WLt", "<=": "WLe"}


def parse_heading(repo):
    path, raw, text = read(repo, "edge_heading.rs")
    m = re.search(r"pub\s+fn\s+bearing_to_destination\s*\(\s*&self\s*,\s*destination\s*:\s*&EdgeHeading\s*\)\s*->\s*i16", text)
    if not m:
        raise TranslateError("%s: `pub fn bearing_to_destination(&self, destination: &EdgeHeading) -> i16` not found" % path)
    body = " ".join(body_of(text, m.end(), path, "bearing_to_destination").split())
    pat = (r"let angle = destination\.start_heading\(\) - self\.end_heading\(\); "
           r"if angle (>=|>) (-?\d+) \{ angle - (\d+) \} else if angle (<=|<) (-?\d+) \{ angle \+ (\d+) \} else \{ angle \}")
    mm = re.fullmatch(pat, body)
    if not mm:
        raise TranslateError("%s: body of bearing_to_destination not of the known shape: %r" % (path, body[:200]))
    # start_heading / end_heading: arrival heading, and departure heading defaulting to the arrival heading
    for name, pat2 in (("start_heading", r"pub fn start_heading\(&self\) -> i16 \{ self\.arrival_heading \}"),
                       ("end_heading", r"pub fn end_heading\(&self\) -> i16 \{ match self\.departure_heading \{ "
                                       r"Some\(end_heading\) => end_heading, None => self\.arrival_heading, \} \}")):
        if not re.search(pat2, " ".join(text.split())):
            raise TranslateError("%s: %s not of the known shape" % (path, name))
    return {"hi_cmp": CMP[mm.group(1)], "hi": int(mm.group(2)), "sub": int(mm.group(3)),
            "lo_cmp": CMP[mm.group(4)], "lo": int(mm.group(5)), "add": int(mm.group(6))}, raw


def z(n):
    return "(%d)" % n if n < 0 else "%d" % n


ALL_VARIANTS = ["NoTurn", "SlightRight", "SlightLeft", "Right", "Left", "SharpRight", "SharpLeft", "UTurn"]
SNAKE = {"no_turn": "NoTurn", "slight_right": "SlightRight", "slight_left": "SlightLeft", "right": "Right", "left": "Left",
         "sharp_right": "SharpRight", "sharp_left": "SharpLeft", "u_turn": "UTurn"}
I16 = (-32768, 32767)


def render(variants, rows, wrap, origin):
    lines = []
    lines.append("(* %s -- do not edit.\n"
                 "   Rows of Turn::from_angle, bounds inclusive; every other angle is Err(RuntimeError).\n"
                 "   Wrap of EdgeHeading::bearing_to_destination:\n"
                 "   if angle <hi_cmp> wrap_hi { angle - wrap_sub } else if angle <lo_cmp> wrap_lo { angle + wrap_add } else { angle }. *)" % origin)
    lines.append("From Coq Require Import ZArith String List.\nImport ListNotations.\nOpen Scope string_scope.\nOpen Scope Z_scope.\n")
    lines.append("Module TurnTable.\n")
    lines.append("Inductive wcmp : Set := WGt | WGe | WLt | WLe.\n")
    lines.append("Definition turn_variants : list string :=\n  [%s].\n" % "; ".join('"%s"' % v for v in variants))
    lines.append("Definition turn_ranges : list ((Z * Z) * string) := [\n%s\n].\n"
                 % ";\n".join('  ((%s, %s), "%s")' % (z(lo), z(hi), v) for (lo, hi, v) in rows))
    lines.append("Definition wrap_hi_cmp : wcmp := %s.\nDefinition wrap_hi : Z := %s.\nDefinition wrap_sub : Z := %s."
                 % (wrap["hi_cmp"], z(wrap["hi"]), z(wrap["sub"])))
    lines.append("Definition wrap_lo_cmp : wcmp := %s.\nDefinition wrap_lo : Z := %s.\nDefinition wrap_add : Z := %s.\n"
                 % (wrap["lo_cmp"], z(wrap["lo"]), z(wrap["add"])))
    lines.append("End TurnTable.")
    return "\n".join(lines) + "\n"


def write(gen_dir, content):
    path = os.path.join(gen_dir, "TurnTable.v")
    old = open(path).read() if os.path.exists(path) else None
    changed = old != content
    if changed:
        os.makedirs(gen_dir, exist_ok=True)
        open(path, "w").write(content)
    return path, changed


def generate(repo, gen_dir):
    """route 1: from the source text"""
    variants, rows, raw1 = parse_turn(repo)
    wrap, raw2 = parse_heading(repo)
    digest = hashlib.sha256(raw1 + raw2).hexdigest()
    content = render(variants, rows, wrap, "GENERATED by translator/tr_turn.py from %s/{turn,edge_heading}.rs (source text; arms in "
                                          "source order, half-open arms written with their last value)" % DIR)
    path, changed = write(gen_dir, content)
    return {"ok": True, "msg": "%d variants, %d range arms, wrap %s %d / %s %d" %
            (len(variants), len(rows), wrap["hi_cmp"], wrap["hi"], wrap["lo_cmp"], wrap["lo"]),
            "digest": digest, "files": [path], "changed": changed,
            "parsed": {"variants": variants, "rows": rows, "wrap": wrap}}


def digest(repo):
    h = hashlib.sha256()
    for f in SOURCE_FILES:
        p = os.path.join(repo, DIR, f)
        h.update(open(p, "rb").read() if os.path.exists(p) else b"")
    return h.hexdigest()


# --------------------------------------------------------------------------- route 2: behaviour of the compiled code

def parse_behaviour(beh):
    """`c03 table` output -> (variants, rows, wrap); raises TranslateError when the behaviour is not of the tabulated shape"""
    rows = []
    for lo, hi, name in beh.get("from_angle", []):
        if name not in SNAKE:
            raise TranslateError("behaviour: Turn::from_angle returns %r on %d..%d (not a known variant / a panic)" % (name, lo, hi))
        rows.append((int(lo), int(hi), SNAKE[name]))
    if not rows:
        raise TranslateError("behaviour: Turn::from_angle accepts no angle")
    if not beh.get("diff_only"):
        raise TranslateError("behaviour: bearing_to_destination is not a function of destination.start - self.end")
    runs = beh.get("bearing", [])
    # expected: x + A below L, x on [L, H], x - S above H
    if (len(runs) != 3 or runs[0][0] != I16[0] or runs[2][1] != I16[1] or runs[1][2] != 0
            or not all(isinstance(r[2], int) for r in runs) or runs[0][2] >= 0 or runs[2][2] <= 0
            or runs[0][1] + 1 != runs[1][0] or runs[1][1] + 1 != runs[2][0]):
        raise TranslateError("behaviour: bearing_to_destination is not `wrap once above / below a threshold`: %r" % (runs[:6],))
    wrap = {"hi_cmp": "WGt", "hi": runs[1][1], "sub": runs[2][2], "lo_cmp": "WLt", "lo": runs[1][0], "add": -runs[0][2]}
    return ALL_VARIANTS, rows, wrap


def generate_from_behaviour(beh, gen_dir):
    variants, rows, wrap = parse_behaviour(beh)
    content = render(variants, rows, wrap, "BEHAVIOURAL EXTRACTION (the source text was not recognised by translator/tr_turn.py): what the compiled "
                                          "Turn::from_angle / EdgeHeading::bearing_to_destination return on every i16 value, tabulated by `c03 table`")
    path, changed = write(gen_dir, content)
    return {"ok": True, "msg": "TurnTable.v from behaviour: %d runs, wrap > %d -%d / < %d +%d"
                               % (len(rows), wrap["hi"], wrap["sub"], wrap["lo"], wrap["add"]),
            "files": [path], "changed": changed, "parsed": {"variants": variants, "rows": rows, "wrap": wrap}}


def semantics(parsed):
    """the table as functions over the whole i16 range, run-length encoded like `c03 table` does"""
    rows, w = parsed["rows"], parsed["wrap"]

    def fa(a):
        for lo, hi, v in rows:
            if lo <= a <= hi:
                return v
        return None

    def cmp(c, a, b):
        return {"WGt": a > b, "WGe": a >= b, "WLt": a < b, "WLe": a <= b}[c]

    def be(x):
        if cmp(w["hi_cmp"], x, w["hi"]):
            r = x - w["sub"]
        elif cmp(w["lo_cmp"], x, w["lo"]):
            r = x + w["add"]
        else:
            r = x
        return x - r if I16[0] <= r <= I16[1] else "panic"

    def rle(f, skip=None):
        out, run = [], None
        for a in range(I16[0], I16[1] + 1):
            v = f(a)
            if run and run[2] == v:
                run[1] = a
            else:
                if run and run[2] != skip:
                    out.append(run)
                run = [a, a, v]
        if run and run[2] != skip:
            out.append(run)
        return out
    return rle(fa, skip=None), rle(be, skip="never")


def compare_with_behaviour(parsed, beh):
    """both routes exist: list of disagreements (empty = the text was read correctly)"""
    fa, be = semantics(parsed)
    bad = []
    want_fa = [[lo, hi, SNAKE.get(n, n)] for lo, hi, n in beh.get("from_angle", [])]
    if fa != want_fa:
        bad.append({"what": "Turn::from_angle", "source_text": fa[:12], "compiled": want_fa[:12]})
    if be != [list(r) for r in beh.get("bearing", [])]:
        bad.append({"what": "bearing_to_destination", "source_text": be[:6], "compiled": beh.get("bearing", [])[:6]})
    if not beh.get("diff_only"):
        bad.append({"what": "bearing_to_destination depends on more than the heading difference"})
    return bad
