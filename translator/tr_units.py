"""Translator for the unit tables (property C09; reused by every model that converts units).

Reads, under <repo>/rust/routee-compass-core/src/model/unit/:
  * the variant lists of the seven unit enums and their serde rename rule,
  * the `match (self, target)` block of the six `convert` functions,
  * the `associated_*_unit` maps of SpeedUnit and EnergyRateUnit,
  * the BASE_*_UNIT constants of builders.rs,
and writes <gen_dir>/UnitTables.v: association lists keyed by the Rust variant identifiers, every
factor as the decimal literal of the source, (mantissa, exponent) exactly as written
(`0.0006215040398` -> Mul 6215040398 (-13)), together with the operation of the arm (Mul / Div / Id).

Deliberately narrow, FAILS CLOSED: any arm, pattern, literal or header it does not recognise raises
TranslateError naming file and line.  The output is not trusted either: the correspondence stream
evaluates the generated table in binary64 next to the real `convert` functions, and
`behaviour_agrees` below compares it with factors extracted from the compiled code.
"""
import hashlib
import os
import re
import struct
from fractions import Fraction

UNIT_DIR = "rust/routee-compass-core/src/model/unit"

# family -> (file, enum name)
FAMILIES = [
    ("distance", "distance_unit.rs", "DistanceUnit"),
    ("time", "time_unit.rs", "TimeUnit"),
    ("speed", "speed_unit.rs", "SpeedUnit"),
    ("energy", "energy_unit.rs", "EnergyUnit"),
    ("grade", "grade_unit.rs", "GradeUnit"),
    ("weight", "weight_unit.rs", "WeightUnit"),
]
ENUM_ONLY = [("energy_rate", "energy_rate_unit.rs", "EnergyRateUnit")]
# (table name, file, enum, function, result enum)
ASSOCIATED = [
    ("speed_time_unit", "speed_unit.rs", "SpeedUnit", "associated_time_unit", "TimeUnit"),
    ("speed_distance_unit", "speed_unit.rs", "SpeedUnit", "associated_distance_unit", "DistanceUnit"),
    ("energy_rate_distance_unit", "energy_rate_unit.rs", "EnergyRateUnit", "associated_distance_unit", "DistanceUnit"),
    ("energy_rate_energy_unit", "energy_rate_unit.rs", "EnergyRateUnit", "associated_energy_unit", "EnergyUnit"),
]
BASES = [
    ("base_distance_unit", "BASE_DISTANCE_UNIT", "DistanceUnit"),
    ("base_time_unit", "BASE_TIME_UNIT", "TimeUnit"),
    ("base_speed_unit", "BASE_SPEED_UNIT", "SpeedUnit"),
]
SOURCE_FILES = ["distance_unit.rs", "time_unit.rs", "speed_unit.rs", "energy_unit.rs", "energy_rate_unit.rs",
                "grade_unit.rs", "weight_unit.rs", "builders.rs",
                "distance.rs", "time.rs", "speed.rs", "energy.rs", "energy_rate.rs", "grade.rs", "weight.rs",
                "internal_float.rs"]

# largest literal the binary64 instance reproduces exactly as rustc does (Base/Num.v, Flit):
# mantissa < 2^53 and |exponent| <= 18 (10^18 < 2^63, the primitive integer range)
MAX_MANTISSA = 2 ** 53
MAX_EXP = 18


class TranslateError(Exception):
    pass


def strip_comments(src):
    """remove // and /* */ comments, keeping every newline (line numbers stay valid) and string literals"""
    out, i, n = [], 0, len(src)
    while i < n:
        c = src[i]
        if src.startswith("//", i):
            while i < n and src[i] != "\n":
                i += 1
        elif src.startswith("/*", i):
            depth = 1
            i += 2
            while i < n and depth:
                if src.startswith("/*", i):
                    depth += 1
                    i += 2
                elif src.startswith("*/", i):
                    depth -= 1
                    i += 2
                else:
                    if src[i] == "\n":
                        out.append("\n")
                    i += 1
        elif c == '"':
            j = i + 1
            while j < n and src[j] != '"':
                j += 2 if src[j] == "\\" else 1
            out.append(src[i:j + 1])
            i = j + 1
        else:
            out.append(c)
            i += 1
    return "".join(out)


class Src:
    def __init__(self, repo, fname):
        self.path = os.path.join(repo, UNIT_DIR, fname)
        self.rel = os.path.join(UNIT_DIR, fname)
        if not os.path.exists(self.path):
            raise TranslateError("%s: file not found" % self.rel)
        self.raw = open(self.path, encoding="utf-8").read()
        self.text = strip_comments(self.raw)

    def line(self, pos):
        return self.text.count("\n", 0, pos) + 1

    def err(self, pos, msg):
        return TranslateError("%s:%d: %s" % (self.rel, self.line(pos), msg))

    def block(self, open_pos):
        """text[open_pos] == '{' -> position of the matching '}'"""
        assert self.text[open_pos] == "{"
        depth = 0
        for i in range(open_pos, len(self.text)):
            ch = self.text[i]
            if ch == "{":
                depth += 1
            elif ch == "}":
                depth -= 1
                if depth == 0:
                    return i
        raise self.err(open_pos, "unbalanced braces")


def parse_enum(s, enum):
    m = re.search(r"((?:#\[[^\]]*\]\s*)*)pub\s+enum\s+%s\s*\{" % enum, s.text)
    if not m:
        raise TranslateError("%s: `pub enum %s {` not found" % (s.rel, enum))
    attrs = m.group(1)
    r = re.search(r'#\[serde\(rename_all\s*=\s*"([a-z_A-Z]+)"\)\]', attrs)
    if not r:
        raise s.err(m.start(), "enum %s has no #[serde(rename_all = ..)] attribute (Display/serde names unknown)" % enum)
    rename = r.group(1)
    if rename != "snake_case":
        raise s.err(m.start(), "enum %s: serde rename rule %r is not the expected snake_case" % (enum, rename))
    op = m.end() - 1
    cl = s.block(op)
    variants = []
    pos = op + 1
    for item in split_top(s, op + 1, cl):
        txt, ipos = item
        t = re.sub(r"#\[[^\]]*\]", "", txt).strip()
        if not t:
            continue
        if "serde(" in txt and "rename" in txt:
            raise s.err(ipos, "variant-level serde rename is not supported: %r" % txt.strip())
        if not re.fullmatch(r"[A-Z][A-Za-z0-9]*", t):
            raise s.err(ipos, "enum %s: unrecognised variant %r (only unit variants are supported)" % (enum, t))
        variants.append(t)
    _ = pos
    if len(set(variants)) != len(variants) or not variants:
        raise s.err(op, "enum %s: bad variant list %r" % (enum, variants))
    return variants, rename


def split_top(s, a, b):
    """split text[a:b] at top-level commas -> [(piece, start position)]"""
    out, depth, start = [], 0, a
    for i in range(a, b):
        ch = s.text[i]
        if ch in "([{":
            depth += 1
        elif ch in ")]}":
            depth -= 1
        elif ch == "," and depth == 0:
            out.append((s.text[start:i], start + (len(s.text[start:i]) - len(s.text[start:i].lstrip()))))
            start = i + 1
    tail = s.text[start:b]
    if tail.strip():
        out.append((tail, start + (len(tail) - len(tail.lstrip()))))
    return out


LIT_RE = re.compile(r"^([0-9][0-9_]*)(?:\.([0-9][0-9_]*)?)?(?:[eE]([+-]?[0-9_]+))?(?:_?f64)?$")


def parse_literal(s, pos, txt):
    """decimal float literal -> (mantissa, exponent), exactly the digits written"""
    t = txt.strip()
    m = LIT_RE.match(t)
    if not m or ("." not in t and "e" not in t.lower() and "f64" not in t):
        raise s.err(pos, "unrecognised numeric literal %r (expected a decimal f64 literal)" % t)
    ip = m.group(1).replace("_", "")
    fp = (m.group(2) or "").replace("_", "")
    ex = int((m.group(3) or "0").replace("_", ""))
    mant = int(ip + fp)
    e = ex - len(fp)
    if mant == 0:
        raise s.err(pos, "conversion factor %r is zero" % t)
    # keep the digits as written, but the binary64 instance must be able to reproduce rustc's rounding
    if mant >= MAX_MANTISSA or abs(e) > MAX_EXP:
        # try the literal without trailing zeros of the mantissa before giving up
        mm, ee = mant, e
        while mm % 10 == 0:
            mm //= 10
            ee += 1
        if mm >= MAX_MANTISSA or abs(ee) > MAX_EXP:
            raise s.err(pos, "literal %r is outside the exactly reproducible range (mantissa < 2^53, |exp| <= %d)" % (t, MAX_EXP))
        mant, e = mm, ee
    return mant, e


def fn_body(s, enum, fname):
    """(start, end) of the body of `pub fn <fname>` inside `impl <enum> {`"""
    for m in re.finditer(r"\bimpl\s+%s\s*\{" % enum, s.text):
        op = m.end() - 1
        cl = s.block(op)
        f = re.search(r"\bpub\s+fn\s+%s\s*\(([^)]*)\)\s*->\s*([A-Za-z0-9_:<>]+)\s*\{" % fname, s.text[op:cl])
        if f:
            bop = op + f.end() - 1
            return bop, s.block(bop), f.group(1), f.group(2), op + f.start()
    raise TranslateError("%s: `pub fn %s` not found in an `impl %s` block" % (s.rel, fname, enum))


def aliases(s, a, b, known):
    """`use X as Y;` statements in text[a:b] -> {alias: enum}; plus the enums themselves and Self"""
    al = {k: k for k in known}
    for m in re.finditer(r"\buse\s+([A-Za-z0-9_:]+)\s+as\s+([A-Za-z0-9_]+)\s*;", s.text[a:b]):
        target = m.group(1).split("::")[-1]
        al[m.group(2)] = target
    return al


def single_match(s, a, b, scrutinee_re, what):
    ms = list(re.finditer(r"\bmatch\s+%s\s*\{" % scrutinee_re, s.text[a:b]))
    if len(ms) != 1:
        raise s.err(a, "%s: expected exactly one `match` on %s, found %d" % (what, scrutinee_re, len(ms)))
    op = a + ms[0].end() - 1
    cl = s.block(op)
    # nothing but `use` statements before the match and nothing after it
    before = re.sub(r"\buse\s+[A-Za-z0-9_:]+(\s+as\s+[A-Za-z0-9_]+)?\s*;", "", s.text[a + 1:a + ms[0].start()]).strip()
    after = s.text[cl + 1:b].strip()
    if before or after:
        raise s.err(a, "%s: unrecognised statements around the match block: %r" % (what, (before or after)[:80]))
    return op, cl


def parse_convert(s, enum, variants):
    bop, bcl, params, ret, fpos = fn_body(s, enum, "convert")
    pm = re.fullmatch(r"\s*&self\s*,\s*([a-z_]+)\s*:\s*&\s*([A-Za-z0-9_]+)\s*,\s*([a-z_]+)\s*:\s*&\s*%s\s*,?\s*" % enum, params)
    if not pm:
        raise s.err(fpos, "%s::convert: unrecognised parameter list %r" % (enum, params.strip()))
    val, valty, tgt = pm.group(1), pm.group(2), pm.group(3)
    if ret != valty:
        raise s.err(fpos, "%s::convert: returns %s but the value has type %s" % (enum, ret, valty))
    al = aliases(s, bop, bcl, [enum])
    al["Self"] = enum
    op, cl = single_match(s, bop, bcl, r"\(\s*self\s*,\s*%s\s*\)" % tgt, "%s::convert" % enum)
    table, seen = [], {}
    v = re.escape(val)
    for arm, apos in split_top(s, op + 1, cl):
        if not arm.strip():
            continue
        if "=>" not in arm:
            raise s.err(apos, "unrecognised match arm %r" % arm.strip()[:80])
        pat, rhs = arm.split("=>", 1)
        rhs = rhs.strip()
        if rhs.startswith("{") and rhs.endswith("}"):
            rhs = rhs[1:-1].strip()
        rpos = apos + arm.index("=>")
        if re.fullmatch(r"\*%s" % v, rhs):
            conv = ("Id",)
        else:
            m1 = re.fullmatch(r"\*%s\s*([*/])\s*([0-9][0-9A-Za-z_.+-]*)" % v, rhs)
            m2 = re.fullmatch(r"([0-9][0-9A-Za-z_.+-]*)\s*\*\s*\*%s" % v, rhs)
            if m1:
                conv = ("Mul" if m1.group(1) == "*" else "Div",) + parse_literal(s, rpos, m1.group(2))
            elif m2:
                conv = ("Mul",) + parse_literal(s, rpos, m2.group(1))  # binary64 multiplication commutes exactly
            else:
                raise s.err(rpos, "%s::convert: unrecognised arm body %r (expected `*%s`, `*%s * <literal>` or `*%s / <literal>`)"
                            % (enum, rhs[:80], val, val, val))
        for alt in pat.split("|"):
            pmatch = re.fullmatch(r"\s*\(\s*([A-Za-z0-9_]+)::([A-Za-z0-9_]+)\s*,\s*([A-Za-z0-9_]+)::([A-Za-z0-9_]+)\s*\)\s*", alt)
            if not pmatch:
                raise s.err(apos, "%s::convert: unrecognised pattern %r (wildcards, bindings and guards are not supported)"
                            % (enum, alt.strip()[:80]))
            a1, u, a2, w = pmatch.groups()
            if al.get(a1) != enum or al.get(a2) != enum:
                raise s.err(apos, "%s::convert: pattern %r does not name %s variants" % (enum, alt.strip(), enum))
            if u not in variants or w not in variants:
                raise s.err(apos, "%s::convert: unknown variant in pattern %r" % (enum, alt.strip()))
            if (u, w) in seen:
                raise s.err(apos, "%s::convert: pair (%s, %s) appears twice (first at line %d)" % (enum, u, w, seen[(u, w)]))
            seen[(u, w)] = s.line(apos)
            table.append(((u, w), conv, s.line(apos)))
    missing = [(u, w) for u in variants for w in variants if (u, w) not in seen]
    if missing:
        raise s.err(op, "%s::convert: no arm for %r" % (enum, missing[:4]))
    return table


def parse_associated(s, enum, variants, fname, res_enum, res_variants):
    bop, bcl, params, ret, fpos = fn_body(s, enum, fname)
    if params.strip().rstrip(",").strip() != "&self" or ret != res_enum:
        raise s.err(fpos, "%s::%s: unrecognised signature (%s) -> %s" % (enum, fname, params.strip(), ret))
    al = aliases(s, bop, bcl, [enum, res_enum])
    al["Self"] = enum
    op, cl = single_match(s, bop, bcl, r"self", "%s::%s" % (enum, fname))
    out, seen = [], set()
    for arm, apos in split_top(s, op + 1, cl):
        if not arm.strip():
            continue
        m = re.fullmatch(r"\s*([A-Za-z0-9_]+)::([A-Za-z0-9_]+)\s*=>\s*([A-Za-z0-9_]+)::([A-Za-z0-9_]+)\s*", arm)
        if not m:
            raise s.err(apos, "%s::%s: unrecognised arm %r" % (enum, fname, arm.strip()[:80]))
        a1, u, a2, w = m.groups()
        if al.get(a1) != enum or al.get(a2) != res_enum or u not in variants or w not in res_variants or u in seen:
            raise s.err(apos, "%s::%s: arm %r does not map a %s variant to a %s variant" % (enum, fname, arm.strip(), enum, res_enum))
        seen.add(u)
        out.append((u, w))
    if seen != set(variants):
        raise s.err(op, "%s::%s: variants without an arm: %r" % (enum, fname, sorted(set(variants) - seen)))
    return out


def parse_base(s, const, enum, variants):
    m = re.search(r"\bpub\s+const\s+%s\s*:\s*%s\s*=\s*%s::([A-Za-z0-9_]+)\s*;" % (const, enum, enum), s.text)
    if not m or m.group(1) not in variants:
        raise TranslateError("%s: `pub const %s: %s = %s::<variant>;` not found" % (s.rel, const, enum, enum))
    return m.group(1)


def parse_all(repo):
    """-> dict with 'variants', 'tables', 'associated', 'bases' (python view of Gen/UnitTables.v)"""
    srcs = {}

    def src(f):
        if f not in srcs:
            srcs[f] = Src(repo, f)
        return srcs[f]

    variants, tables, assoc, bases = {}, {}, {}, {}
    enum_of = {}
    for fam, f, enum in FAMILIES + ENUM_ONLY:
        variants[fam], _ = parse_enum(src(f), enum)
        enum_of[enum] = fam
    for fam, f, enum in FAMILIES:
        tables[fam] = parse_convert(src(f), enum, variants[fam])
    # EnergyRateUnit must NOT have grown a convert function the model does not know about
    if re.search(r"\bfn\s+convert\b", src("energy_rate_unit.rs").text):
        raise TranslateError("%s: EnergyRateUnit now has a `convert` function; the translator and the model do not cover it"
                             % src("energy_rate_unit.rs").rel)
    for name, f, enum, fn, res in ASSOCIATED:
        assoc[name] = parse_associated(src(f), enum, variants[enum_of[enum]], fn, res, variants[enum_of[res]])
    for name, const, enum in BASES:
        bases[name] = parse_base(src("builders.rs"), const, enum, variants[enum_of[enum]])
    return {"variants": variants, "tables": tables, "associated": assoc, "bases": bases}


def digest(repo):
    h = hashlib.sha256()
    per = {}
    for f in SOURCE_FILES:
        p = os.path.join(repo, UNIT_DIR, f)
        b = open(p, "rb").read() if os.path.exists(p) else b"<missing>"
        per[f] = hashlib.sha256(b).hexdigest()[:16]
        h.update(f.encode() + b"\0" + b + b"\0")
    return h.hexdigest(), per


def coq_str(s):
    return '"%s"' % s


def coq_z(z):
    return "(%d)" % z if z < 0 else "%d" % z


def coq_conv(c):
    if c[0] == "Id":
        return "Id"
    return "%s %s %s" % (c[0], coq_z(c[1]), coq_z(c[2]))


def render(p):
    L = []
    L.append("(* GENERATED by translator/tr_units.py from %s/{*_unit,builders}.rs -- do not edit." % UNIT_DIR)
    L.append("   Keys are the Rust variant identifiers; factors are the decimal literals of the source,")
    L.append("   mantissa and decimal exponent exactly as written; Mul/Div/Id is the operation of the arm. *)")
    L.append("From Coq Require Import ZArith String List.")
    L.append("Import ListNotations.")
    L.append("Open Scope string_scope.")
    L.append("Open Scope Z_scope.")
    L.append("")
    L.append("Module UnitTables.")
    L.append("")
    L.append("Inductive conv : Set := Id | Mul (m e : Z) | Div (m e : Z).")
    L.append("")
    for fam in [f for f, _, _ in FAMILIES + ENUM_ONLY]:
        L.append("Definition %s_variants : list string :=" % fam)
        L.append("  [%s]." % "; ".join(coq_str(v) for v in p["variants"][fam]))
    L.append("")
    for fam, f, enum in FAMILIES:
        L.append("(* %s::convert, %s *)" % (enum, f))
        L.append("Definition %s_table : list ((string * string) * conv) := [" % fam)
        rows = []
        for (u, w), c, ln in p["tables"][fam]:
            rows.append("  ((%s, %s), %s)" % (coq_str(u), coq_str(w), coq_conv(c)))
        L.append(";\n".join(rows))
        L.append("].")
        L.append("")
    for name, f, enum, fn, res in ASSOCIATED:
        L.append("(* %s::%s, %s *)" % (enum, fn, f))
        L.append("Definition %s : list (string * string) :=" % name)
        L.append("  [%s]." % "; ".join("(%s, %s)" % (coq_str(a), coq_str(b)) for a, b in p["associated"][name]))
    L.append("")
    L.append("(* builders.rs *)")
    for name, const, enum in BASES:
        L.append("Definition %s : string := %s.  (* %s *)" % (name, coq_str(p["bases"][name]), const))
    L.append("")
    L.append("End UnitTables.")
    return "\n".join(L) + "\n"


def write_if_changed(path, content):
    old = open(path).read() if os.path.exists(path) else None
    if old != content:
        os.makedirs(os.path.dirname(path), exist_ok=True)
        open(path, "w").write(content)
        return True
    return False


def generate(repo, gen_dir):
    dg, per = digest(repo)
    p = parse_all(repo)          # raises TranslateError (file:line) on anything unrecognised
    changed = write_if_changed(os.path.join(gen_dir, "UnitTables.v"), render(p))
    npairs = sum(len(t) for t in p["tables"].values())
    return {"ok": True, "msg": "UnitTables.v: %d conversion arms in %d families, %d associated-unit maps, %d base units%s"
            % (npairs, len(p["tables"]), len(p["associated"]), len(p["bases"]), " (rewritten)" if changed else " (unchanged)"),
            "digest": dg, "files": per, "changed": changed, "parsed": p}


# --------------------------------------------------------------------------- second route: behaviour
# DESIGN.md 1.1: when the source no longer has a shape the text translator parses (a reformatted match, a
# named constant, a composite arm body) the table is rebuilt from what the COMPILED code does: the harness
# (`c09 table`) reports convert(u, v, x) for 206 fixed probes per ordered pair plus the variant lists, associated
# units and base units.  An arm is tabulated as Id / Mul k / Div k when that form reproduces every probe bit for
# bit in binary64 (python floats are binary64); as an APPROXIMATE Mul k (k = convert(u, v, 1.0)) when every probe
# agrees with x * k to 1e-12 relative (a numerically harmless composite body; the correspondence stream then
# needs its 1e-9 band for that arm); anything else is not multiplication by a constant: reported as `untabulated`
# (the factor seen at 1.0 is written so that the rest of the run still describes the current code) and the caller
# fails closed.

def _f64(bits_hex):
    return struct.unpack("<d", struct.pack("<Q", int(bits_hex, 16)))[0]


def _flit(m, e):
    """Base/Num.v Flit in python: float_of_Z m (*|/) float_of_Z 10^|e|"""
    fm = float(m)
    if e == 0:
        return fm
    p = float(10 ** abs(e))
    return fm * p if e > 0 else fm / p


def _shortest_literal(k):
    """(mantissa, exponent) of the shortest decimal that rustc/python read back as k, or None if the binary64
    instance of the model cannot reproduce it"""
    from decimal import Decimal
    if k != k or k in (float("inf"), float("-inf")):
        return None
    if k == 0.0:
        return (0, 0) if f64_bits(k) == 0 else None      # -0.0 has no literal in the table format
    sign, digits, exp = Decimal(repr(k)).as_tuple()
    m = int("".join(map(str, digits)))
    while m % 10 == 0 and m != 0:
        m //= 10
        exp += 1
    if m == 0 or m >= 2 ** 63 or abs(exp) > MAX_EXP:
        return None
    if sign:
        m = -m
    if f64_bits(_flit(m, exp)) != f64_bits(k):
        return None
    return m, exp


def _neighbours(x, n):
    import math
    out, lo, hi = [x], x, x
    for _ in range(n):
        lo, hi = math.nextafter(lo, -math.inf), math.nextafter(hi, math.inf)
        out += [lo, hi]
    return out


def entry_from_behaviour(obs, strict=True):
    """obs: [(x_bits, y_bits)], first probe x = 1.0 -> (conv tuple, 'exact' | 'approximate' | 'untabulated')"""
    pts = [(_f64(a), _f64(b)) for a, b in obs]
    same = lambda a, b: f64_bits(a) == f64_bits(b)  # noqa
    if all(same(x, y) for x, y in pts):
        return ("Id",), "exact"
    assert pts[0][0] == 1.0
    k = pts[0][1]
    lit = _shortest_literal(k)
    if lit and all(same(x * k, y) for x, y in pts):
        return ("Mul",) + lit, "exact"
    if k > 0.0 and k == k and k != float("inf"):
        cands = []
        for c in _neighbours(1.0 / k, 8):
            l2 = _shortest_literal(c)
            if l2 and all(same(x / c, y) for x, y in pts):
                cands.append((len(str(l2[0])), l2))
        if cands:
            return ("Div",) + min(cands)[1], "exact"
    if lit and all(y == y and abs(y - x * k) <= 1e-12 * abs(y) for x, y in pts):
        return ("Mul",) + lit, "approximate"
    if strict:
        raise TranslateError("behaviour is not multiplication or division by one constant (convert(.., 1.0) = %r)" % k)
    # best effort so that the rest of the run still describes the current code: the factor seen at 1.0
    return ("Mul",) + (lit or (0, 0)), "untabulated"


def parse_behaviour(beh, strict=True):
    """table.json of `c09 table` -> (dict shaped like parse_all's result, [approximate arms], [untabulated arms])"""
    variants, tables, approx, untab = {}, {}, [], []
    for fam, _f, _e in FAMILIES + ENUM_ONLY:
        if fam not in beh:
            raise TranslateError("behavioural table has no family %r" % fam)
        variants[fam] = list(beh[fam]["variants"])
    for fam, _f, _e in FAMILIES:
        rows = []
        for row in beh[fam]["rows"]:
            try:
                c, how = entry_from_behaviour(row["obs"], strict)
            except TranslateError as e:
                raise TranslateError("%s %s -> %s: %s" % (fam, row["from"], row["to"], e))
            if how == "approximate":
                approx.append([fam, row["from"], row["to"]])
            elif how == "untabulated":
                untab.append([fam, row["from"], row["to"], "convert(.., 1.0) = %r" % _f64(row["obs"][0][1])])
            rows.append(((row["from"], row["to"]), c, 0))
        want = {(u, w) for u in variants[fam] for w in variants[fam]}
        if {k for k, _, _ in rows} != want or len(rows) != len(want):
            raise TranslateError("behavioural table of %s does not cover every ordered pair exactly once" % fam)
        tables[fam] = rows
    assoc = {name: [tuple(p) for p in beh["_associated"][name]] for name, _f, _e, _fn, _r in ASSOCIATED}
    bases = {name: beh["_bases"][name] for name, _c, _e in BASES}
    return {"variants": variants, "tables": tables, "associated": assoc, "bases": bases}, approx, untab


def generate_from_behaviour(beh, gen_dir):
    """always writes a table describing the current code as well as it can be tabulated; `untabulated` lists the arms
    that are NOT multiplication/division by one constant (the caller must fail closed on them)"""
    p, approx, untab = parse_behaviour(beh, strict=False)
    text = render(p).replace(
        "(* GENERATED by translator/tr_units.py from",
        "(* BEHAVIOURAL EXTRACTION (the source text was not recognised by the translator): factors observed on the\n"
        "   compiled code by `c09 table`, same format.  Text route would have been: GENERATED by translator/tr_units.py from", 1)
    changed = write_if_changed(os.path.join(gen_dir, "UnitTables.v"), text)
    return {"ok": not untab, "parsed": p, "approximate": approx, "untabulated": untab, "changed": changed,
            "msg": "UnitTables.v from behaviour: %d arms, %d approximate, %d not tabulatable"
                   % (sum(len(t) for t in p["tables"].values()), len(approx), len(untab))}


# --------------------------------------------------------------------------- helpers for checks/c09.py

def conv_fraction(c):
    """exact rational factor of a table entry"""
    if c[0] == "Id":
        return Fraction(1)
    k = Fraction(c[1]) * Fraction(10) ** c[2]
    return k if c[0] == "Mul" else 1 / k


def conv_float_at_one(c):
    """what binary64 `convert(u, v, 1.0)` returns for this entry (python floats are binary64;
    float(str) and int/int division are correctly rounded, as rustc's literal parsing is)"""
    if c[0] == "Id":
        return 1.0
    k = float(Fraction(c[1]) * Fraction(10) ** c[2])
    return 1.0 * k if c[0] == "Mul" else 1.0 / k


def f64_bits(x):
    return struct.unpack("<Q", struct.pack("<d", x))[0]
