"""Translators: Rust source under /repo -> coq/Gen/*.v (regenerated on every run).

Dispatcher only.  Every `tr_<name>.py` next to this file is a translator module exposing

    generate(repo, gen_dir) -> dict   (at least {'ok': bool, 'msg': str, 'digest': str})

`run_all(repo, gen_dir, which=None)` imports each of them (or only the names listed in `which`,
e.g. ["units"]) and calls `generate`.  A module that cannot be imported or that raises is recorded
as {'ok': False, 'msg': <error naming file/line>, ...} in the returned dict; nothing is raised
here, so one broken translator cannot take the other properties' checks down.  Translators are
narrow on purpose and FAIL CLOSED: source text they do not recognise is an error, which the
calling check reports as a broken correspondence.
"""
import glob
import importlib.util
import os
import traceback

HERE = os.path.dirname(os.path.abspath(__file__))


def _load(path):
    name = os.path.basename(path)[:-3]
    spec = importlib.util.spec_from_file_location("verif_translator_" + name, path)
    mod = importlib.util.module_from_spec(spec)
    spec.loader.exec_module(mod)
    return mod


def run_all(repo, gen_dir, which=None):
    os.makedirs(gen_dir, exist_ok=True)
    out = {}
    for path in sorted(glob.glob(os.path.join(HERE, "tr_*.py"))):
        name = os.path.basename(path)[3:-3]
        if which is not None and name not in which and ("tr_" + name) not in which:
            continue
        try:
            res = _load(path).generate(repo, gen_dir)
            if not isinstance(res, dict):
                res = {"ok": True, "msg": str(res)}
            res.setdefault("ok", True)
            res.setdefault("msg", "")
            res.setdefault("digest", "")
        except Exception as e:  # noqa  fail closed, but never raise out of the dispatcher
            res = {"ok": False, "msg": "%s: %s" % (type(e).__name__, e), "digest": "",
                   "trace": traceback.format_exc()[-1500:]}
        out[name] = res
    return out
