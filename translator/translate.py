"""Translators: Rust source under /repo -> coq/Gen/*.v (regenerated on every run)."""
import os


def run_all(repo, gen_dir, which=None):
    os.makedirs(gen_dir, exist_ok=True)
    return {}
